(* Correspondence case and checker for C11 (dynamic sample keys). *)
From Refinery Require Export Lib.Base Model.TraceKey.

(* a second trace run through the same key builder *)
Record other := { o_trace : trace; o_key : str; o_n : N }.

(* base trace through one of the five dynsampler-backed samplers (real dynsampler) *)
Record sobs := { s_name : string; s_key : str; s_rate : Z; s_keep : bool }.

(* DynamicSampler with a stub dynsampler returning st_dyn *)
Record stub := { st_dyn : Z; st_rate_min : Z; st_rate_max : Z; st_calls : Z; st_kept : Z;
                 st_key_seen : str }.

Record case := {
  c_fields : list str;                 (* FieldList as configured (unsorted, root. prefixes) *)
  c_uselen : bool;
  c_trace : trace;
  c_key : str; c_n : N;                (* traceKey.build on c_trace *)
  c_vars : list (list nat * str * N);  (* span index lists (permutations / with repeats) and the key built for each *)
  c_other : option other;
  c_samplers : list sobs;
  c_stub : option stub
}.

Definition nf_of (c : case) : list str := fst (prepare (c_fields c)).

Definition pick_spans (t : trace) (idx : list nat) : trace :=
  {| t_spans := flat_map (fun i => match nth_error (t_spans t) i with Some s => [s] | None => [] end) idx;
     t_root := t_root t |}.

Definition key_eqb (a b : str * N) : bool := str_eqb (fst a) (fst b) && N.eqb (snd a) (snd b).

(* ---- model vs implementation ---- *)
Definition var_agrees (c : case) (v : list nat * str * N) : bool :=
  let '(idx, k, n) := v in key_eqb (build (c_fields c) (c_uselen c) (pick_spans (c_trace c) idx)) (k, n).

Definition stub_agrees (s : stub) : bool :=
  (st_rate_min s =? rate_floor (st_dyn s)) && (st_rate_max s =? rate_floor (st_dyn s)).

Definition model_agrees (c : case) : bool :=
  key_eqb (build (c_fields c) (c_uselen c) (c_trace c)) (c_key c, c_n c) &&
  forallb (var_agrees c) (c_vars c) &&
  match c_other c with
  | Some o => key_eqb (build (c_fields c) (c_uselen c) (o_trace o)) (o_key o, o_n o)
  | None => true
  end &&
  match c_stub c with Some s => stub_agrees s | None => true end.

(* ---- property monitor ---- *)
Definition below_cap (nf : list str) (t : trace) : bool := (total_distinct nf t <? MAXK)%N.

Definition is_perm_idx (n : nat) (idx : list nat) : bool :=
  (length idx =? n)%nat && forallb (fun i => existsb (Nat.eqb i) idx) (seq 0 n).
Definition covers_idx (n : nat) (idx : list nat) : bool :=
  forallb (fun i => existsb (Nat.eqb i) idx) (seq 0 n) && forallb (fun i => (i <? n)%nat) idx.

(* 10: permutation of spans changed the key; 11: duplication changed it (UseTraceLength off) *)
Definition mon_var (c : case) (v : list nat * str * N) : codes :=
  let '(idx, k, _) := v in
  let n := length (t_spans (c_trace c)) in
  if negb (below_cap (nf_of c) (c_trace c)) then []
  else if is_perm_idx n idx then (if str_eqb k (c_key c) then [] else [10%N])
  else if covers_idx n idx && negb (c_uselen c) then (if str_eqb k (c_key c) then [] else [11%N])
  else [].

Definition canon_m (f : str) (t : trace) : list str := ssort (scan_u (vals f t) []).
Definition no_empty (l : list str) : list str := filter (fun s => negb (str_eqb s [])) l.
Definition is_nil {A} (l : list A) : bool := match l with [] => true | _ => false end.

Definition sep_hyps (nf : list str) (t : trace) : bool :=
  below_cap nf t &&
  forallb (fun f => negb (is_nil (vals f t))) nf &&
  forallb (fun f => forallb delim_free (vals f t)) nf.

(* 12 / 16: separation *)
Definition mon_other (c : case) : codes :=
  match c_other c with
  | None => []
  | Some o =>
      let nf := nf_of c in
      let t := c_trace c in let t' := o_trace o in
      if sep_hyps nf t && sep_hyps nf t' &&
         existsb (fun f => negb (list_eqb str_eqb (canon_m f t) (canon_m f t'))) nf &&
         str_eqb (c_key c) (o_key o)
      then if forallb (fun f => list_eqb str_eqb (no_empty (canon_m f t)) (no_empty (canon_m f t'))) nf
           then [16%N] else [12%N]
      else []
  end.

(* 13: the sampler reports / uses another key than the trace key *)
Definition mon_sampler_key (c : case) : codes :=
  (if forallb (fun s => str_eqb (s_key s) (c_key c)) (c_samplers c) then [] else [13%N]) ++
  match c_stub c with
  | Some s => if str_eqb (st_key_seen s) (c_key c) then [] else [13%N]
  | None => []
  end.

(* 14: rate below 1 *)
Definition mon_rate (c : case) : codes :=
  (if forallb (fun s => 1 <=? s_rate s) (c_samplers c) then [] else [14%N]) ++
  match c_stub c with
  | Some s => if 1 <=? st_rate_min s then [] else [14%N]
  | None => []
  end.

(* 15: keep frequency is not 1/rate (6 sigma), or a rate-1 answer dropped the trace *)
Definition mon_keep (c : case) : codes :=
  (if forallb (fun s => negb (s_rate s =? 1) || s_keep s) (c_samplers c) then [] else [15%N]) ++
  match c_stub c with
  | Some s =>
      let r := st_rate_min s in
      if (r =? st_rate_max s) && (1 <=? r) then
        let d := st_kept s * r - st_calls s in
        if d * d <=? 36 * st_calls s * (r - 1) then [] else [15%N]
      else []
  | None => []
  end.

Definition check (c : case) : codes :=
  (if model_agrees c then [] else [code_mismatch]) ++
  flat_map (mon_var c) (c_vars c) ++
  mon_other c ++ mon_sampler_key c ++ mon_rate c ++ mon_keep c.
