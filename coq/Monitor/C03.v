(* C03 — trace decisions happen at the documented time: correspondence + monitor. *)
From Refinery Require Export Monitor.CollCase_coll.

(* Monitor over the implementation's observation, against the specification tracker:
   10  a tick decided a trace before its deadline (now < SendBy by the deadline formula)
   11  a tick left an expired trace undecided although fewer than MaxExpiredTraces were taken
   12  a tick decided more than MaxExpiredTraces traces
   13  a tick decided a trace while an expired trace with an earlier deadline stayed buffered
   14  wrong send reason on a trace decided by a tick (ladder got_root > span_limit > expired)
   15  a buffered trace's SendBy differs from the deadline formula
   16  a trace left the buffer during an op that is neither a tick nor an ejection
   17  a late span was forwarded with a reason other than late_span *)
Definition sendby_of (b : amap trace) (t : N) : Z := t_sendby (lookup_tr b t).

Definition tick_checks (ts : tstate) (it : item) (wi : nat) (lf : list N) : codes :=
  let now := i_now it in let c := ts_cfg ts in
  let b := tb ts wi in
  let rem := drop_keys b lf in
  let me := c_me c in
  cond (forallb (fun t => sendby_of b t <=? now) lf) 10 ++
  cond (negb (existsb (fun kv => t_sendby (snd kv) <=? now) rem) ||
        ((0 <? me) && (me <=? Z.of_nat (length lf)))) 11 ++
  cond ((me <=? 0) || (Z.of_nat (length lf) <=? me)) 12 ++
  cond (forallb (fun t => forallb (fun kv => (now <? t_sendby (snd kv)) || (sendby_of b t <=? t_sendby (snd kv))) rem) lf) 13 ++
  cond (forallb (fun e => negb (mem_N (ev_tid e) lf) ||
                          N.eqb (ev_reason e) (tick_reason c (lookup_tr b (ev_tid e)))) (o_fwd it)) 14.

Definition c03_item (p : tstate * item) : codes :=
  let ts := fst p in let it := snd p in
  let now := i_now it in let c := ts_cfg ts in
  match i_op it with
  | ITick w lf => tick_checks ts it (N.to_nat w) lf
  | ITickAll lefts =>
      flat_map (fun wi => tick_checks ts it wi (nth wi lefts [])) (seq 0 (length (ts_bufs ts))) ++
      cond (forallb (fun e => existsb (mem_N (ev_tid e)) lefts) (o_fwd it)) 14
  | ISpan w s =>
      let wi := N.to_nat w in
      let after := nth wi (o_bufs it) [] in
      let ts' := track_step ts it in
      cond (forallb (fun e : N * list N * Z =>
                       match alookup (fst (fst e)) (tb ts' wi) with
                       | Some tr => Z.eqb (t_sendby tr) (snd e)
                       | None => false end) after) 15 ++
      cond (forallb (fun kv => mem_N (fst kv) (keys_of after)) (tb ts wi)) 16 ++
      cond (forallb (fun e => N.eqb (ev_reason e) R_late) (o_fwd it)) 17
  | IReload _ =>
      cond (list_eqb (list_eqb N.eqb) (map (fun b => nsort (akeys b)) (ts_bufs ts)) (map (fun b => nsort (keys_of b)) (o_bufs it))) 16
  | _ => []
  end.

Definition check (k : case) : codes :=
  (if model_agrees k then [] else [code_mismatch]) ++ flat_map c03_item (tracked k).
