(* Correspondence case and checker for C09 (sampling independent of wire encoding / span order). *)
From Refinery Require Export Lib.Base Model.Values Model.Rules Model.Wire Model.KeyLite.
From Refinery Require Import Monitor.C08.
Local Open Scope string_scope.
Local Open Scope Z_scope.

(* one way of sending the logical trace; v_class names the single dimension in which it differs
   from the reference variant (see props/C09.json) *)
Record variant := {
  v_class : N;
  v_trace : wtrace;
  v_out : outcome;          (* RulesBasedSampler.GetSampleRate on the trace built from this variant *)
  v_key : string            (* newTraceKey(fields, useTraceLength).build *)
}.

Record case := {
  q_rules : list rule;
  q_fields : list string;          (* dynamic-sampler FieldList *)
  q_uselen : bool;
  q_fmt : list (dy * string);      (* %v *)
  q_fmtf : list (dy * string);     (* 'f' -1 *)
  q_parse : list (string * option dy);
  q_ds : list (option outcome);
  q_draw : list Z;
  q_vars : list variant            (* head = reference: msgpack batch, signed ints, float64, original order *)
}.

Definition q_model_out (c : case) (v : variant) : outcome :=
  run_rules (fmt_lookup (q_fmt c)) (parse_lookup (q_parse c)) rx_frag
            (fun i => nth i (q_ds c) None) (fun i => nth i (q_draw c) 1)
            (dec_trace (v_trace v)) O (q_rules c).
Definition q_model_key (c : case) (v : variant) : string :=
  key_of (fmt_lookup (q_fmtf c)) (q_fields c) (q_uselen c) (dec_trace (v_trace v)).

Definition variant_agrees (c : case) (v : variant) : bool :=
  outcome_eqb (q_model_out c v) (v_out v) && String.eqb (q_model_key c v) (v_key v).

(* the property itself, on the implementation's observations: every variant behaves like the
   reference *)
Definition variant_codes (ref v : variant) : codes :=
  ((if outcome_eqb (v_out ref) (v_out v) then [] else [(10 + v_class v)%N]) ++
   (if String.eqb (v_key ref) (v_key v) then [] else [(20 + v_class v)%N]))%list.

Definition check (c : case) : codes :=
  ((if forallb (variant_agrees c) (q_vars c) then [] else [code_mismatch]) ++
   match q_vars c with
   | [] => []
   | ref :: vs => flat_map (variant_codes ref) vs
   end)%list.
