(* Correspondence case and checker for C24 (ingest authorization and key replacement). *)
From Refinery Require Export Lib.Base Model.Auth.

Record case := {
  c_entry : entry;
  c_cfg : akcfg;
  c_key : string;          (* the key the client sent ("" = no key header) *)
  c_kid_client : string;   (* key ID Honeycomb's /1/auth reports for it ("" for blank / classic keys) *)
  c_kid_send : string;     (* key ID of SendKey *)
  o_status : N;            (* HTTP status / gRPC code *)
  o_keys : list string     (* API key of every event handed to the collector or a transmission *)
}.

Definition kid_of_case (c : case) : string -> string :=
  fun k => if String.eqb k (c_key c) then c_kid_client c
           else if String.eqb k (ak_send (c_cfg c)) then c_kid_send c else ""%string.

Definition is_grpc_entry (e : entry) : bool := match e with EGrpcTrace | EGrpcLogs => true | _ => false end.
Definition st_success (e : entry) (st : N) : bool := if is_grpc_entry e then (st =? 0)%N else (st =? 200)%N.
Definition st_refused (e : entry) (st : N) : bool := if is_grpc_entry e then (st =? 16)%N else (st =? 401)%N.

Definition all_keys (k : string) (l : list string) : bool := forallb (String.eqb k) l.

Definition result_matches (r : result) (c : case) : bool :=
  match r with
  | Rejected => st_refused (c_entry c) (o_status c) && match o_keys c with [] => true | _ => false end
  | Sent k => st_success (c_entry c) (o_status c) && all_keys k (o_keys c) && match o_keys c with [] => false | _ => true end
  end.

Definition check (c : case) : codes :=
  let e := c_entry c in
  let model := enter e (c_cfg c) (kid_of_case c) (c_key c) in
  let sp := spec (c_cfg c) (kid_of_case c) (c_key c) in
  let ok := st_success e (o_status c) in
  let refused := st_refused e (o_status c) in
  (if result_matches model c then [] else [code_mismatch]) ++
  (match sp with
   | Rejected => if ok || negb (match o_keys c with [] => true | _ => false end) then [10%N] else []
   | Sent k => (if refused then [11%N] else []) ++
               (if ok && negb (all_keys k (o_keys c)) then [13%N] else [])
   end) ++
  (if existsb (fun k => negb (nonempty k)) (o_keys c) then [12%N] else []) ++
  (if (ok && negb (match o_keys c with [] => true | _ => false end)) || (refused && negb ok) then [] else [14%N]).
