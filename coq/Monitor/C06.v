(* Checker of C06: decoration of forwarded spans under the configuration in force. *)
From Refinery Require Export Monitor.Coll2.

Definition code_attrs : N := 30%N.
Definition code_host : N := 31%N.
Definition code_reason : N := 32%N.
Definition code_ontime_counts : N := 33%N.
Definition code_late_counts : N := 34%N.
Definition code_nonroot_counts : N := 35%N.

Definition cnt_eqb (a b : N * N * N * N) : bool :=
  let '(a1, a2, a3, a4) := a in let '(b1, b2, b3, b4) := b in
  N.eqb a1 b1 && N.eqb a2 b2 && N.eqb a3 b3 && N.eqb a4 b4.
Definition out_counts (x : out) : N * N * N * N := (o_spancount x, o_eventcount x, o_sevcount x, o_linkcount x).

(* expected root decoration from the four counters (descendants, span events, links, spans) *)
Definition want_root (c : cfg) (q : cnt) : N * N * N * N :=
  let '(d, e, l, s) := q in
  if c_counts c then (s, d, e, l) else if c_spancount c then (d, 0, 0, 0)%N else (0, 0, 0, 0)%N.

Definition judge_common (b : book) (x : out) : codes :=
  (if attrs_eqb (o_attrs x) (c_attrs (b_cfg b)) then [] else [code_attrs]) ++
  (if Bool.eqb (o_host x) (b_host b) then [] else [code_host]).

Definition judge_counts (b : book) (x : out) (sp : span) (q : cnt) (bad : N) : codes :=
  if s_root sp then (if cnt_eqb (out_counts x) (want_root (b_cfg b) q) then [] else [bad])
  else (if cnt_eqb (out_counts x) (0, 0, 0, 0)%N then [] else [code_nonroot_counts]).

Definition want_late_reason (c : cfg) (r : string) : string :=
  if c_reason c then (if String.eqb r EmptyString then "late arriving span" else r ++ " - late arriving span")%string
  else EmptyString.

Definition judge06 (dec sdec : N -> N * bool * string) (b : book) (o : op) (outs : list out) : codes :=
  flat_map (judge_common b) outs ++
  match o with
  | Span sp =>
      match span_path b sp false, outs with
      | PLateKept _ reason q, [x] =>
          (if String.eqb (o_reason x) (want_late_reason (b_cfg b) reason) then [] else [code_reason]) ++
          judge_counts b x sp q code_late_counts
      | PLateDropped, [x] =>
          (if String.eqb (o_reason x) (want_late_reason (b_cfg b) EmptyString) then [] else [code_reason])
      | _, _ => []
      end
  | Stress sp =>
      match outs with
      | [x] =>
          let reason := match span_path b sp true with
                        | PLateKept _ r _ => r
                        | _ => snd (sdec (s_tid sp))
                        end in
          (if String.eqb (o_reason x) (if c_reason (b_cfg b) then reason else EmptyString) then [] else [code_reason]) ++
          (if cnt_eqb (out_counts x) (0, 0, 0, 0)%N then [] else [code_nonroot_counts])
      | _ => []
      end
  | Decide =>
      flat_map (fun x => match alookup (o_sid x) (b_spans b) with
                         | Some sp =>
                             let '(_, _, reason) := dec (s_tid sp) in
                             (if String.eqb (o_reason x) (if c_reason (b_cfg b) then reason else EmptyString) then [] else [code_reason]) ++
                             judge_counts b x sp (cnt_of (filter (fun s0 => N.eqb (s_tid s0) (s_tid sp)) (b_bufspans b))) code_ontime_counts
                         | None => []
                         end) outs
  | Reload _ => []
  end.

Definition check (c : case) : codes :=
  (if model_agrees c then [] else [code_mismatch]) ++
  monitor_with (judge06 (oracle (c_dec c)) (oracle (c_sdec c))) (oracle (c_dec c)) (oracle (c_sdec c))
               (book_init (c_cfg c)) (c_ops c) (c_obs c).
