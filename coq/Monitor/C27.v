(* Correspondence case and checker for C27 (config reload). *)
From Refinery Require Export Lib.Base Model.Reload.

(* one trigger and what the real fileConfig looked like after it *)
Record step_obs := {
  so_kind : N;              (* 0 timer tick (Reload), 1 pubsub message (SubscriptionListener), 2 malformed pubsub
                               message (no reload), 3 burst of so_n concurrent triggers, 4 a reload reads so_src and is
                               held at the store, the sources change to so_src2, a second trigger arrives, the first
                               reload finishes, both return *)
  so_n : N;
  so_src : source;          (* what the sources held, with startup's verdict measured by the real NewConfig *)
  so_src2 : source;         (* kind 4 only: what they held when the second trigger arrived *)
  so_val : N;               (* identity of the getter values of the running config afterwards *)
  so_hash : N;              (* content identity of GetHashes() afterwards *)
  so_notes : list (list N)  (* per listener: content identities passed to its callback during this step *)
}.
Record case := { c_init : content; c_steps : list step_obs }.

Definition nthreads : nat := 6.

(* run thread t (and with it every thread of a burst) to completion: round-robin, enough rounds *)
Fixpoint rounds (k : nat) (ts : list nat) : list sop :=
  match k with O => [] | S k' => map Step ts ++ rounds k' ts end.
Definition trigger_schedule (n : nat) (ncb : nat) : list sop :=
  map Trigger (seq 0 n) ++ rounds (n * (8 + ncb)) (seq 0 n).

Definition notes_of (cb : N) (l : list (N * N)) : list N :=
  map snd (filter (fun x => N.eqb (fst x) cb) l).

Fixpoint model_steps (cbs : list N) (s : sys) (steps : list step_obs) : bool :=
  match steps with
  | [] => true
  | o :: r =>
      let n := if N.eqb (so_kind o) 3 then N.to_nat (so_n o) else 1%nat in
      let s0 := sstep gen_variant cbs s (SetFile (so_src o)) in
      let s1 := if N.eqb (so_kind o) 2 then s0
                else if N.eqb (so_kind o) 4 then
                  srun gen_variant cbs s0 ([Trigger 0; Step 0; Step 0; Step 0; SetFile (so_src2 o); Trigger 1; Step 1; Step 1]%nat ++
                                           rounds (2 * (8 + length cbs)) [0; 1]%nat)
                else srun gen_variant cbs s0 (trigger_schedule n (length cbs)) in
      let fresh := firstn (length (notes s1) - length (notes s)) (notes s1) in
      quiescent s1 && N.eqb (cval (cur s1)) (so_val o) && N.eqb (chash (cur s1)) (so_hash o) &&
      list_eqb (list_eqb N.eqb) (map (fun cb => rev (notes_of cb fresh)) cbs) (so_notes o) &&
      model_steps cbs s1 r
  end.

Definition listeners (c : case) : list N :=
  match c_steps c with
  | o :: _ => map N.of_nat (seq 0 (length (so_notes o)))
  | [] => []
  end.
Definition model_agrees (c : case) : bool :=
  model_steps (listeners c) (sinit nthreads (c_init c)) (c_steps c).

(* ---------- property monitor: every step judged against the previously OBSERVED running config ---------- *)
(* a malformed pubsub message need not reload: doing nothing is fine, and so is a correct reload *)
Definition step_codes (prev_hash prev_val : N) (o : step_obs) : codes :=
  let should := match so_src o with
                | Readable c => cacc c && negb (N.eqb (chash c) prev_hash)
                | Unreadable => false
                end in
  let changed := negb (N.eqb (so_hash o) prev_hash) || negb (N.eqb (so_val o) prev_val) in
  if N.eqb (so_kind o) 2 && negb changed && forallb (fun l => match l with [] => true | _ => false end) (so_notes o) then [] else
  match so_src o with
  | Readable c =>
      if should then
        (if negb (N.eqb (so_hash o) (chash c)) then [if cwarn c then 11%N else 10%N] else
         (if negb (N.eqb (so_val o) (cval c)) then [17%N] else []) ++
         (if existsb (fun l => match l with [] => true | _ => false end) (so_notes o) then [13%N] else []) ++
         (if existsb (fun l => (1 <? length l)%nat) (so_notes o) then [14%N] else []) ++
         (if existsb (fun l => existsb (fun h => negb (N.eqb h (chash c))) l) (so_notes o) then [16%N] else []))
      else
        (if changed then [12%N] else []) ++
        (if existsb (fun l => match l with [] => false | _ => true end) (so_notes o) then [15%N] else [])
  | Unreadable =>
      (if changed then [12%N] else []) ++
      (if existsb (fun l => match l with [] => false | _ => true end) (so_notes o) then [15%N] else [])
  end.

(* kind 4: after both reloads returned the outcome must be that of reloading so_src, then so_src2 *)
Definition should_apply (prev_hash : N) (s : source) : option content :=
  match s with
  | Readable c => if cacc c && negb (N.eqb (chash c) prev_hash) then Some c else None
  | Unreadable => None
  end.
Definition step_codes4 (prev_hash prev_val : N) (o : step_obs) : codes :=
  let a1 := should_apply prev_hash (so_src o) in
  let h1 := match a1 with Some c => chash c | None => prev_hash end in
  let v1 := match a1 with Some c => cval c | None => prev_val end in
  let a2 := should_apply h1 (so_src2 o) in
  let h2 := match a2 with Some c => chash c | None => h1 end in
  let v2 := match a2 with Some c => cval c | None => v1 end in
  let want := app (match a1 with Some c => [chash c] | None => [] end) (match a2 with Some c => [chash c] | None => [] end) in
  app (if N.eqb (so_hash o) h2 then (if N.eqb (so_val o) v2 then [] else [17%N])
       else match a2 with Some _ => [18%N] | None => [12%N] end)
      (if forallb (fun l => list_eqb N.eqb l want) (so_notes o) then []
       else if existsb (fun l => (length l <? length want)%nat) (so_notes o) then [13%N] else [14%N]).

Fixpoint monitor_steps (prev_hash prev_val : N) (steps : list step_obs) : codes :=
  match steps with
  | [] => []
  | o :: r => (if N.eqb (so_kind o) 4 then step_codes4 prev_hash prev_val o else step_codes prev_hash prev_val o) ++
              monitor_steps (so_hash o) (so_val o) r
  end.

Definition check (c : case) : codes :=
  (if model_agrees c then [] else [code_mismatch]) ++
  monitor_steps (chash (c_init c)) (cval (c_init c)) (c_steps c).
