(* Correspondence case and checker for C12 (shared dynsampler registry, worker-local caches). *)
From Refinery Require Export Lib.Base Lib.Strs_samp Model.Registry.

Record case := {
  c_cfg : econfig;                        (* rules in force at the start *)
  c_ops : list wop;
  c_obs : list (list (option N))          (* per op: instance behind each slot, numbered by first-seen pointer *)
}.

(* ---- canonical numbering by first occurrence ---- *)
Fixpoint renum_go (seen : list N) (l : list (option N)) : list (option N) * list N :=
  match l with
  | [] => ([], seen)
  | None :: r => let '(o, s) := renum_go seen r in (None :: o, s)
  | Some x :: r =>
      let fix pos (s : list N) (i : N) : option N :=
        match s with [] => None | y :: t => if N.eqb x y then Some i else pos t (N.succ i) end in
      match pos seen 0%N with
      | Some i => let '(o, s) := renum_go seen r in (Some i :: o, s)
      | None => let '(o, s) := renum_go (seen ++ [x]) r in (Some (N.of_nat (length seen)) :: o, s)
      end
  end.
Definition renum (l : list (option N)) : list (option N) := fst (renum_go [] l).

Definition oid_eqb (a b : option N) : bool := option_eqb N.eqb a b.

Definition model_agrees (c : case) : bool :=
  let m := wrun {| w_f := finit; w_cfg := c_cfg c; w_cache := [] |} (c_ops c) in
  list_eqb Nat.eqb (map (@length _) m) (map (@length _) (c_obs c)) &&
  list_eqb oid_eqb (renum (concat m)) (renum (concat (c_obs c))).

(* ---- property monitor: labels computed from the rules and the worker-cache discipline only ---- *)
(* label of a slot: generation of the rules, level, sampler key name, definition, worker *)
Record label := { l_gen : N; l_sc : scope; l_name : str; l_def : ddef; l_w : N }.

Definition def_identical (a b : ddef) : bool :=
  N.eqb (dd_type a) (dd_type b) && list_eqb Z.eqb (dd_params a) (dd_params b) &&
  list_eqb str_eqb (ssort (dd_fields a)) (ssort (dd_fields b)).

Definition slots_of (g w : N) (name : str) (e : edef) : list (option label) :=
  match e with
  | EDet => []
  | EDyn d => [Some {| l_gen := g; l_sc := Top; l_name := name; l_def := d; l_w := w |}]
  | ERules ds => map (option_map (fun d => {| l_gen := g; l_sc := Down; l_name := name; l_def := d; l_w := w |})) ds
  end.

Fixpoint lfind (w : N) (name : str) (m : list ((N * str) * list (option label))) : option (list (option label)) :=
  match m with
  | [] => None
  | ((w', n), v) :: r => if N.eqb w w' && str_eqb name n then Some v else lfind w name r
  end.

Fixpoint labels (g : N) (cfg : econfig) (cache : list ((N * str) * list (option label))) (ops : list wop)
  : list (list (option label)) :=
  match ops with
  | [] => []
  | WGet w name :: r =>
      match lfind w name cache with
      | Some ls => ls :: labels g cfg cache r
      | None => let ls := slots_of g w name (elookup cfg name) in
                ls :: labels g cfg (((w, name), ls) :: cache) r
      end
  | WReload c :: r => [] :: labels (N.succ g) c cache r
  | WWorkerReload w :: r =>
      [] :: labels g cfg (filter (fun e => negb (N.eqb (fst (fst e)) w)) cache) r
  end.

Fixpoint zip_some {A B} (a : list (option A)) (b : list (option B)) : list (A * B) :=
  match a, b with
  | Some x :: a', Some y :: b' => (x, y) :: zip_some a' b'
  | _ :: a', _ :: b' => zip_some a' b'
  | _, _ => []
  end.

Definition pair_codes (p q : label * N) : codes :=
  let '(la, ia) := p in let '(lb, ib) := q in
  let same_def := scope_eqb (l_sc la) (l_sc lb) && str_eqb (l_name la) (l_name lb) &&
                  def_identical (l_def la) (l_def lb) in
  if N.eqb ia ib then
    (* shared state: only allowed for the same generation, name, level and identical definitions *)
    if negb (N.eqb (l_gen la) (l_gen lb)) then [14%N]
    else if negb (str_eqb (l_name la) (l_name lb)) then [11%N]
    else if negb same_def then [12%N]
    else []
  else
    (* separate state: not allowed for identical definitions of one generation *)
    if N.eqb (l_gen la) (l_gen lb) && same_def
    then (if N.eqb (l_w la) (l_w lb) then [13%N] else [10%N])
    else [].

Fixpoint all_pairs {A} (f : A -> A -> codes) (l : list A) : codes :=
  match l with [] => [] | x :: r => flat_map (f x) r ++ all_pairs f r end.

Definition check (c : case) : codes :=
  let ls := labels 0%N (c_cfg c) [] (c_ops c) in
  (if model_agrees c then [] else [code_mismatch]) ++
  nodup N.eq_dec (all_pairs pair_codes (zip_some (concat ls) (concat (c_obs c)))).
