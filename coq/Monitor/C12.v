(* Correspondence case and checker for C12 (shared dynsampler registry, worker-local caches). *)
From Refinery Require Export Lib.Base Lib.Strs_samp Model.Registry.

(* collector-level reload scenario on the real InMemCollector with ro_workers workers: every worker
   decides a trace of one environment (ro_before), then the real reloadConfigs runs; in the middle of
   it (between its steps) worker ro_actor runs its reload branch if a signal is already pending
   (ro_mid_handled) and decides another trace (ro_mid); afterwards every worker runs its reload branch
   if a signal is pending and decides again (ro_after).  Instances numbered by first-seen pointer. *)
Record robs := {
  ro_workers : N; ro_actor : N; ro_def : ddef;
  ro_mid_handled : bool;
  ro_before : list (option N); ro_mid : option N; ro_after : list (option N)
}.

Record case := {
  c_cfg : econfig;                        (* rules in force at the start *)
  c_ops : list wop;
  c_obs : list (list (option N));         (* per op: instance behind each slot, numbered by first-seen pointer *)
  c_reload : option robs;
  c_conc : option (N * N * N)             (* concurrent creation: (goroutines, rounds, rounds in which the goroutines,
                                             asking the factory for the same definition at the same time after a
                                             clear, did not all get the same instance) *)
}.

(* ---- canonical numbering by first occurrence ---- *)
Fixpoint renum_go (seen : list N) (l : list (option N)) : list (option N) * list N :=
  match l with
  | [] => ([], seen)
  | None :: r => let '(o, s) := renum_go seen r in (None :: o, s)
  | Some x :: r =>
      let fix pos (s : list N) (i : N) : option N :=
        match s with [] => None | y :: t => if N.eqb x y then Some i else pos t (N.succ i) end in
      match pos seen 0%N with
      | Some i => let '(o, s) := renum_go seen r in (Some i :: o, s)
      | None => let '(o, s) := renum_go (seen ++ [x]) r in (Some (N.of_nat (length seen)) :: o, s)
      end
  end.
Definition renum (l : list (option N)) : list (option N) := fst (renum_go [] l).

Definition oid_eqb (a b : option N) : bool := option_eqb N.eqb a b.

Definition model_agrees (c : case) : bool :=
  let m := wrun {| w_f := finit; w_cfg := c_cfg c; w_cache := [] |} (c_ops c) in
  list_eqb Nat.eqb (map (@length _) m) (map (@length _) (c_obs c)) &&
  list_eqb oid_eqb (renum (concat m)) (renum (concat (c_obs c))).

(* ---- property monitor: labels computed from the rules and the worker-cache discipline only ---- *)
(* label of a slot: generation of the rules, level, sampler key name, definition, worker *)
Record label := { l_gen : N; l_sc : scope; l_name : str; l_def : ddef; l_w : N }.

Definition def_identical (a b : ddef) : bool :=
  N.eqb (dd_type a) (dd_type b) && list_eqb Z.eqb (dd_params a) (dd_params b) &&
  list_eqb str_eqb (ssort (dd_fields a)) (ssort (dd_fields b)).

Definition slots_of (g w : N) (name : str) (e : edef) : list (option label) :=
  match e with
  | EDet => []
  | EDyn d => [Some {| l_gen := g; l_sc := Top; l_name := name; l_def := d; l_w := w |}]
  | ERules ds => map (option_map (fun d => {| l_gen := g; l_sc := Down; l_name := name; l_def := d; l_w := w |})) ds
  end.

Fixpoint lfind (w : N) (name : str) (m : list ((N * str) * list (option label))) : option (list (option label)) :=
  match m with
  | [] => None
  | ((w', n), v) :: r => if N.eqb w w' && str_eqb name n then Some v else lfind w name r
  end.

Fixpoint labels (g : N) (cfg : econfig) (cache : list ((N * str) * list (option label))) (ops : list wop)
  : list (list (option label)) :=
  match ops with
  | [] => []
  | WGet w name :: r =>
      match lfind w name cache with
      | Some ls => ls :: labels g cfg cache r
      | None => let ls := slots_of g w name (elookup cfg name) in
                ls :: labels g cfg (((w, name), ls) :: cache) r
      end
  | WReload c :: r => [] :: labels (N.succ g) c cache r
  | WWorkerReload w :: r =>
      [] :: labels g cfg (filter (fun e => negb (N.eqb (fst (fst e)) w)) cache) r
  end.

Fixpoint zip_some {A B} (a : list (option A)) (b : list (option B)) : list (A * B) :=
  match a, b with
  | Some x :: a', Some y :: b' => (x, y) :: zip_some a' b'
  | _ :: a', _ :: b' => zip_some a' b'
  | _, _ => []
  end.

Definition pair_codes (p q : label * N) : codes :=
  let '(la, ia) := p in let '(lb, ib) := q in
  let same_def := scope_eqb (l_sc la) (l_sc lb) && str_eqb (l_name la) (l_name lb) &&
                  def_identical (l_def la) (l_def lb) in
  if N.eqb ia ib then
    (* shared state: only allowed for the same generation, name, level and identical definitions *)
    if negb (N.eqb (l_gen la) (l_gen lb)) then [14%N]
    else if negb (str_eqb (l_name la) (l_name lb)) then [11%N]
    else if negb same_def then [12%N]
    else []
  else
    (* separate state: not allowed for identical definitions of one generation *)
    if N.eqb (l_gen la) (l_gen lb) && same_def
    then (if N.eqb (l_w la) (l_w lb) then [13%N] else [10%N])
    else [].

Fixpoint all_pairs {A} (f : A -> A -> codes) (l : list A) : codes :=
  match l with [] => [] | x :: r => flat_map (f x) r ++ all_pairs f r end.

(* ---- collector-level reload scenario ---- *)
Definition ro_name : str := u "prod".
Definition ro_cfg (r : robs) : econfig := [(ro_name, EDyn (ro_def r)); (u "__default__", EDet)].
Definition ro_ws (r : robs) : list N := map N.of_nat (seq 0 (N.to_nat (ro_workers r))).

(* the model of the reload as the source orders it: ClearDynsamplers, then the signals *)
Definition ro_model (r : robs) : list (list (option N)) :=
  wrun {| w_f := finit; w_cfg := ro_cfg r; w_cache := [] |}
       (map (fun w => WGet w ro_name) (ro_ws r) ++
        reload_schedule true (ro_cfg r) [WGet (ro_actor r) ro_name]
                        (flat_map (fun w => [WWorkerReload w; WGet w ro_name]) (ro_ws r))).

Definition ro_impl (r : robs) : list (option N) := ro_before r ++ [ro_mid r] ++ ro_after r.

Definition reload_agrees (r : robs) : bool :=
  negb (ro_mid_handled r) &&
  list_eqb oid_eqb (renum (concat (ro_model r))) (renum (ro_impl r)).

Definition distinct_ids (l : list (option N)) : list N :=
  nodup N.eq_dec (flat_map (fun o => match o with Some i => [i] | None => [] end) l).

Definition reload_codes (r : robs) : codes :=
  (* 15: after the reload the workers (all of which have processed it) do not share one instance *)
  (if (length (distinct_ids (ro_after r)) <=? 1)%nat then [] else [15%N]) ++
  (* 14: an instance of the previous generation is still in use after every worker processed the reload *)
  (if existsb (fun i => existsb (N.eqb i) (distinct_ids (ro_before r))) (distinct_ids (ro_after r)) then [14%N] else []) ++
  (* 16: a worker could run its reload branch before the registry was cleared *)
  (if ro_mid_handled r then [16%N] else []).

Definition check (c : case) : codes :=
  let ls := labels 0%N (c_cfg c) [] (c_ops c) in
  (if model_agrees c && match c_reload c with Some r => reload_agrees r | None => true end then [] else [code_mismatch]) ++
  nodup N.eq_dec (all_pairs pair_codes (zip_some (concat ls) (concat (c_obs c)))) ++
  match c_reload c with Some r => reload_codes r | None => [] end ++
  (* 17: workers creating the sampler for the same definition at the same time got different instances
         (the model's create is one atomic step: lookup-or-create under the factory mutex) *)
  match c_conc c with Some (_, _, bad) => if (bad =? 0)%N then [] else [17%N] | None => [] end.
