(* Correspondence case and checker for C35.
   A case is one concurrent scenario executed on the REAL refinery components by a harness binary
   built with the Go race detector; the observation is the list of race reports, each resolved by
   the driver to (struct, field, function of one access, function of the other access). *)
From Refinery Require Export Lib.Base Model.Locks Model.LocksInst.
Local Open Scope string_scope.

Record race_obs := { r_struct : string; r_field : string; r_fa : string; r_fb : string }.

Record case := {
  c_scn : string;              (* scenario name *)
  c_completed : bool;          (* the scenario ran to the end (no panic, no deadlock/timeout) *)
  c_races : list race_obs
}.

(* does the model (the regenerated table) predict that these two functions may race on the field? *)
Definition predicts (r : race_obs) : bool :=
  existsb (fun p : site * site =>
     let '(a, b) := p in
     String.eqb (s_struct a) (r_struct r) && String.eqb (s_field a) (r_field r) &&
     ((String.eqb (s_func a) (r_fa r) && String.eqb (s_func b) (r_fb r)) ||
      (String.eqb (s_func a) (r_fb r) && String.eqb (s_func b) (r_fa r))))
   (bad_pairs c35_singleton c35_table).

Definition in_table (r : race_obs) : bool :=
  existsb (fun f : string * string * string =>
     let '(st, fd, _) := f in String.eqb st (r_struct r) && String.eqb fd (r_field r)) c35_fields.

Definition mem_str (s : string) (l : list string) : bool := existsb (String.eqb s) l.

(* one violation class per component *)
Definition class_code (r : race_obs) : N :=
  let st := r_struct r in
  if negb (in_table r) then (if String.eqb st "" then 18 else 17)
  else if mem_str st ["cuckooSentCache"; "CuckooTraceChecker"; "keptTraceCacheEntry"; "KeptReasonsCache"] then 10
  else if mem_str st ["fileConfig"] then 11
  else if mem_str st ["ConfigWatcher"] then 12
  else if mem_str st ["InMemCollector"; "CollectorWorker"; "StressRelief"; "SamplerFactory"] then 13
  else if mem_str st ["DirectTransmission"; "eventBatch"] then 14
  else if mem_str st ["RedisPubsubPeers"] then 15
  else if mem_str st ["Router"; "environmentCache"] then 16
  else if mem_str st ["MultiMetrics"; "Health"; "LocalPubSub"; "LocalSubscription"; "GoRedisPubSub";
                      "GoRedisSubscription"; "DeterministicSharder"; "SetWithTTL"; "MapWithTTL"; "usageTracker"] then 20
  else 17.

Fixpoint dedup (l : list N) : list N :=
  match l with
  | [] => []
  | x :: r => if mem_N x r then dedup r else x :: dedup r
  end.

Definition check (c : case) : codes :=
  (* model vs implementation: a race the table says cannot happen *)
  app (if existsb (fun r => in_table r && negb (predicts r)) (c_races c) then [code_mismatch] else [])
  (* property monitor: no race report, and the scenario completed *)
  (app (dedup (map class_code (c_races c)))
       (if c_completed c then [] else [19%N])).
