(* Checker of C04: forwarded sample rates compose the client rate and the trace's rate. *)
From Refinery Require Export Monitor.Coll2.

Definition code_ontime_rate : N := 10%N.
Definition code_final_field : N := 11%N.
Definition code_orig_field : N := 12%N.
Definition code_late_rate : N := 13%N.
Definition code_stress_rate : N := 14%N.
Definition code_rate_truncated : N := 15%N.
Definition code_trace_rate_zero : N := 16%N.
Definition code_forward_set : N := 17%N.
Definition code_rate_zero_forwarded : N := 18%N.

(* kind: 0 on time, 1 from a decision record (late span / later stress span), 2 first stress span *)
Definition judge_rate (kind : N) (x : out) (sp : span) (R : N) : codes :=
  let want := mul64 (maxone (s_rate sp)) R in
  if N.eqb (o_rate x) 0 then
    (* a forwarded SampleRate of 0 (and hence no final_sample_rate field) *)
    [code_rate_zero_forwarded] ++ (if (R <? 1)%N then [code_trace_rate_zero] else [])
  else if (R <? 1)%N then [code_trace_rate_zero]
  else if negb (N.eqb (o_rate x) want) then
    if N.eqb kind 1 && (two32 <=? R)%N && N.eqb (o_rate x) (mul64 (maxone (s_rate sp)) (R mod two32))
    then [code_rate_truncated]
    else [if N.eqb kind 0 then code_ontime_rate else if N.eqb kind 1 then code_late_rate else code_stress_rate]
  else if negb (Z.eqb (o_final x) (to_i64 want)) then [code_final_field]
  else if negb (N.eqb (o_orig x) (s_rate sp)) then [code_orig_field]
  else [].

Definition expect_one (outs : list out) (sp : span) (k : out -> codes) : codes :=
  match outs with
  | [x] => if N.eqb (o_sid x) (s_id sp) then k x else [code_forward_set]
  | _ => [code_forward_set]
  end.
Definition expect_none (outs : list out) : codes := match outs with [] => [] | _ => [code_forward_set] end.

Definition judge04 (dec sdec : N -> N * bool * string) (b : book) (o : op) (outs : list out) : codes :=
  if c_dry (b_cfg b) then [] else
  match o with
  | Span sp =>
      match span_path b sp false with
      | PLateKept rate _ _ => expect_one outs sp (fun x => judge_rate 1 x sp rate)
      | _ => expect_none outs
      end
  | Stress sp =>
      match span_path b sp true with
      | PLateDropped => expect_none outs
      | PLateKept rate _ _ => expect_one outs sp (fun x => judge_rate 1 x sp rate)
      | _ => let '(rate, keep, _) := sdec (s_tid sp) in
             if keep then expect_one outs sp (fun x => judge_rate 2 x sp rate) else expect_none outs
      end
  | Decide =>
      flat_map (fun x => match alookup (o_sid x) (b_spans b) with
                         | Some sp => let '(rate, keep, _) := dec (s_tid sp) in
                                      if keep && mem_N (s_tid sp) (b_buf b) then judge_rate 0 x sp rate
                                      else [code_forward_set]
                         | None => [code_forward_set]
                         end) outs
  | Reload _ => expect_none outs
  end.

Definition check (c : case) : codes :=
  (if model_agrees c then [] else [code_mismatch]) ++
  monitor_with (judge04 (oracle (c_dec c)) (oracle (c_sdec c))) (oracle (c_dec c)) (oracle (c_sdec c))
               (book_init (c_cfg c)) (c_ops c) (c_obs c).
