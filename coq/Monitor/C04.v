(* Checker of C04 (placeholder refined below). *)
From Refinery Require Export Monitor.Coll2.
Definition check (c : case) : codes := if model_agrees c then [] else [code_mismatch].
