(* C07 — memory-pressure ejection decides traces rather than discarding them: correspondence + monitor. *)
From Refinery Require Export Monitor.CollCase_coll.

(* Monitor over the implementation's observation, against the specification tracker
   (impact = sum over spans of (4*age/TraceTimeout' + 1) * DataSize, share = (alloc - max) / workers):
   10  an ejected trace is lighter than a trace that stayed buffered (not heaviest first)
   11  the ejection stopped although the released DataSize does not exceed the share and traces remain
   12  the ejection went on after the released DataSize already exceeded the share
   13  an ejected trace was not decided like a timed-out trace: no decision on record, decision differs
       from the sampler's on the buffered spans, forwarded spans differ from the buffered spans (kept /
       dry run) or are not empty (dropped), or the send reason is not ejected_memsize
   14  a trace that was not ejected was disturbed (or an ejected one is still buffered)
   15  checkAlloc ejected although heap < MaxAlloc or MaxAlloc = 0 *)
Section C07.
  Variable k : case.

  Definition sum_list (l : list Z) : Z := fold_right Z.add 0 l.

  Definition eject_checks (ts : tstate) (it : item) (wi : nat) (bytes : Z) (lf : list N) : codes :=
    let c := ts_cfg ts in
    let tt := eject_tt c in
    let b := tb ts wi in
    let rem := drop_keys b lf in
    let imp t := trace_impact tt (lookup_tr b t) in
    let size t := data_size (lookup_tr b t) in
    let total := sum_list (map size lf) in
    let minimp := fold_right Z.min (match lf with t :: _ => imp t | [] => 0 end) (map imp lf) in
    cond (forallb (fun t => forallb (fun kv => trace_impact tt (snd kv) <=? imp t) rem) lf) 10 ++
    cond (is_empty rem || (bytes <? total)) 11 ++
    cond (is_empty lf || (bytes <? 0) ||
          existsb (fun t => (imp t =? minimp) && (total - size t <=? bytes)) lf) 12 ++
    cond (forallb (fun t =>
            match alookup t b with
            | None => false
            | Some tr =>
                let keep := table_sampler (k_tables k) (c_ver c) (rev (t_spans tr)) in
                let d := nthN (o_dec it) t 0%N in
                let evs := filter (fun e => N.eqb (ev_tid e) t) (o_fwd it) in
                (mem_N t (i_forgot it) || N.eqb d (if keep then 1 else 2)%N) &&
                (if keep || k_dry k
                 then list_eqb N.eqb (nsort (map (fun e : ev => snd (fst e)) evs)) (nsort (map s_id (t_spans tr)))
                 else is_empty evs) &&
                forallb (fun e => N.eqb (ev_reason e) R_eject) evs
            end) lf) 13 ++
    cond (list_eqb buf_entry_eqb (obs_buf rem) (nth wi (o_bufs it) [])) 14.

  Definition c07_item (p : tstate * item) : codes :=
    let ts := fst p in let it := snd p in
    match i_op it with
    | IEject w bytes lf =>
        eject_checks ts it (N.to_nat w) bytes lf ++
        cond (forallb (fun e => mem_N (ev_tid e) lf) (o_fwd it)) 13
    | IAlloc alloc maxalloc lefts =>
        let n := length (ts_bufs ts) in
        if alloc_triggers alloc maxalloc then
          flat_map (fun wi => eject_checks ts it wi (alloc_share alloc maxalloc (Z.of_nat n)) (nth wi lefts [])) (seq 0 n) ++
          cond (forallb (fun e => existsb (mem_N (ev_tid e)) lefts) (o_fwd it)) 13
        else cond (forallb (fun l : list N => is_empty l) lefts && is_empty (o_fwd it)) 15
    | _ => []
    end.

  Definition c07_codes : codes := flat_map c07_item (tracked k).
End C07.

Definition check (k : case) : codes :=
  (if model_agrees k then [] else [code_mismatch]) ++ c07_codes k.
