(* Correspondence case and checker for C20 (forwarded events carry exactly the client's fields). *)
From Refinery Require Export Lib.Base Lib.SMap_route2 Model.Payload Monitor.PayloadCmp_route2.

(* one event of a request: the client's fields, what the (mock) collector did to the span before
   handing it to the transmission, and the data map received by the fake Honeycomb / peer endpoint
   (None = nothing arrived for this event) *)
Record ecase := {
  e_fields : fields;
  e_ops : list op;
  e_hop2 : option string;   (* Some ua: the event was forwarded to the owner first (observed) and the owner, whose
                               router saw the forwarding transmission's User-Agent ua, applied e_ops and sent it on *)
  e_obs : option fields
}.

Record case := {
  c_path : path;
  c_cfg : xcfg;
  c_ua : string;
  c_widen : list (N * N);      (* float32 bits -> float64 bits, as converted by Go, for the floats of this case *)
  c_events : list ecase;
  c_deliv : list deliv       (* delivery scenario run on the real DirectTransmission (usually none) *)
}.

(* ---------- model vs implementation ---------- *)
Definition model_out (w : N -> N) (pa : path) (c : xcfg) (ua : string) (e : ecase) : option fields :=
  match e_hop2 e with
  | None => forward w pa c ua (e_fields e) (e_ops e)
  | Some ua2 => match forward w pa c ua (e_fields e) [] with
                | Some out1 => forward w PBatchMsgp c ua2 out1 (e_ops e)
                | None => None
                end
  end.

Definition model_agrees (c : case) (e : ecase) : bool :=
  option_eqb fields_eqb (model_out (widen_of (c_widen c)) (c_path c) (c_cfg c) (c_ua c) e) (e_obs e).

(* ---------- the property monitor, on the implementation's observation only ---------- *)
Section Mon.
  Variable widen : N -> N.
  Variable pa : path.

  Definition set_codes (ops : list op) (out : fields) (k : string) : codes :=
    match last_set k ops with
    | Some v => match slookup k out with
                | Some w => if same_value widen w v then [] else [17%N]
                | None => [17%N]
                end
    | None => []
    end.

  Definition event_monitor (c : xcfg) (ua : string) (e : ecase) : codes :=
    let fs := e_fields e in
    let sk := set_keys (e_ops e) in
    match e_obs e with
    | None =>
        (* nothing forwarded: fine for an empty event, a probe, or an event the decoder rejects;
           the model decides which (a disagreement is reported as code 1), so the monitor only flags
           an event that is well-formed, not a probe, and still vanished *)
        match model_out widen pa c ua e with Some _ => [16%N] | None => [] end
    | Some out =>
        flat_map (field_codes widen pa out)
                 (filter (fun kv => negb (reserved (fst kv)) && negb (smem (fst kv) sk)) fs)
        ++ (if sdistinct (skeys out) then [] else [14%N])
        ++ (if forallb (fun k => reserved k || shas k fs || smem k sk) (skeys out) then [] else [15%N])
        ++ flat_map (set_codes (e_ops e) out) (filter (fun k => negb (reserved k)) (sdedup sk))
    end.
End Mon.

Definition check (c : case) : codes :=
  let w := widen_of (c_widen c) in
  flat_map (fun e => (if model_agrees c e then [] else [code_mismatch])
                     ++ event_monitor w (c_path c) (c_cfg c) (c_ua c) e) (c_events c)
  ++ flat_map deliv_codes (c_deliv c).
