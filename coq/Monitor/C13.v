(* Correspondence case and checker for C13 (throughput goals and cluster size). *)
From Refinery Require Export Lib.Base Lib.Strs_samp Model.Registry.

(* after each op: instance returned by a creation (numbered by first-seen pointer), goals of the
   instances created since the last clear (by number), and the factory's peer count *)
Record obs := { o_id : option N; o_goals : list (N * Z); o_peers : Z }.

Record case := { c_ops : list fop; c_obs : list obs }.

Fixpoint insert_g (x : N * Z) (l : list (N * Z)) : list (N * Z) :=
  match l with [] => [x] | y :: r => if (fst x <=? fst y)%N then x :: l else y :: insert_g x r end.
Definition sort_g (l : list (N * Z)) : list (N * Z) := fold_right insert_g [] l.

Definition pair_eqb (a b : N * Z) : bool := N.eqb (fst a) (fst b) && Z.eqb (snd a) (snd b).

Fixpoint mrun (s : fstate) (ops : list fop) : list obs :=
  match ops with
  | [] => []
  | o :: r => let '(s', out) := fstep s o in
              {| o_id := out; o_goals := sort_g (live_goals s'); o_peers := f_peers s' |} :: mrun s' r
  end.

Definition obs_eqb (a b : obs) : bool :=
  option_eqb N.eqb (o_id a) (o_id b) && list_eqb pair_eqb (o_goals a) (sort_g (o_goals b)) &&
  Z.eqb (o_peers a) (o_peers b).

Definition model_agrees (c : case) : bool := list_eqb obs_eqb (mrun finit (c_ops c)) (c_obs c).

(* ---- property monitor: a spec that knows nothing about the registry ---- *)
(* spec peer count: the last successful, non-empty count the factory had the occasion to see *)
Definition see (cur : Z) (src : option Z) : Z :=
  match src with Some n => if 0 <? n then n else cur | None => cur end.

(* expectations: (impl instance number, definition) of every creation since the last clear *)
Fixpoint mon (cur : Z) (src : option Z) (made : list (N * ddef)) (ops : list fop) (os : list obs) : codes :=
  match ops, os with
  | o :: r, ob :: rs =>
      let '(cur', src', made') :=
        match o with
        | FCreate _ _ d => (see cur src, src,
                            match o_id ob with Some id => (id, d) :: made | None => made end)
        | FCreateRace _ _ d s => (see (see cur src) s, s,
                                  match o_id ob with Some id => (id, d) :: made | None => made end)
        | FClear => (cur, src, [])
        | FPeers s fire => ((if fire then see cur s else cur), s, made)
        end in
      let goal_of := fun id => match filter (fun g => N.eqb (fst g) id) (o_goals ob) with
                               | g :: _ => Some (snd g) | [] => None end in
      let per := fun (m : N * ddef) =>
        let '(id, d) := m in
        if is_throughput (dd_type d) then
          match goal_of id with
          | None => [13%N]
          | Some g =>
              if use_cluster (dd_type d) (dd_params d)
              then (if g =? Z.max 1 (goal_cfg (dd_type d) (dd_params d) / cur') then [] else [10%N])
              else (if g =? init_goal d then [] else [11%N])
          end
        else [] in
      (* 14: a membership change delivered during a sampler creation was overwritten by the
             creation's stale reading of the peer list *)
      let racing := match o with FCreateRace _ _ _ _ => true | _ => false end in
      (if o_peers ob =? cur' then [] else [if racing then 14%N else 12%N]) ++
      flat_map per made' ++ mon cur' src' made' r rs
  | _, _ => []
  end.

Definition check (c : case) : codes :=
  (if model_agrees c then [] else [code_mismatch]) ++
  nodup N.eq_dec (mon 1 (Some 1) [] (c_ops c) (c_obs c)).
