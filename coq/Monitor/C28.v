(* Correspondence case and checker for C28 (partial): crash search. Every case is executed in a child
   process; "crashed" = the child died (panic escaping a goroutine, os.Exit, fatal signal). *)
From Refinery Require Export Lib.Base Lib.Prim_cross Model.Panics.
From Refinery Require Import Gen.GenC28 Model.PanicFacts.

Inductive ckind :=
(* a rules file whose sampler has this FieldList went through the real validator; then the real
   config.GetKeyFields ran on the list: obs = None if the child crashed *)
| KKeyFields (accepted : bool) (fields : list string) (obs : option (list string * list string))
(* a rules file with a DeterministicSampler of this rate; hashes = sha1 prefixes of the trace ids decided;
   obs = (rate reported, keep) per trace, None if the child crashed *)
| KDetRate (accepted : bool) (rate : Z) (hashes : list Z) (obs : option (list (Z * bool)))
(* a generated rules file: accepted by the validator? child crashed while loading / while building samplers
   and taking decisions? *)
| KConfig (accepted load_crashed run_crashed : bool) (sig : N)   (* sig: crash signature class, 0 = unclassified *)
(* a rules file with ONE rule without conditions (it matches every trace), no downstream sampler, this static
   SampleRate and Drop flag; sampler built, traces decided *)
| KRuleRate (accepted drop : bool) (rate : Z) (crashed : bool)
(* a stream of fuzzed requests against the in-process routers (and the gRPC trace handler) *)
| KRequests (crashed hung : bool) (caught_panics : N).

Record case := { c_kind : ckind }.

Definition str_list_eqb := list_eqb String.eqb.
Definition kf_eqb (a b : list string * list string) : bool := str_list_eqb (fst a) (fst b) && str_list_eqb (snd a) (snd b).
Definition dec_eqb (a b : Z * bool) : bool := Z.eqb (fst a) (fst b) && Bool.eqb (snd a) (snd b).

Fixpoint all_some {A} (l : list (option A)) : option (list A) :=
  match l with
  | [] => Some []
  | None :: _ => None
  | Some x :: r => match all_some r with Some xs => Some (x :: xs) | None => None end
  end.

Definition check (c : case) : codes :=
  match c_kind c with
  | KKeyFields acc fields obs =>
      (if option_eqb kf_eqb (key_fields root_prefix computed_prefix key_fields_skips_empty fields) obs then [] else [code_mismatch]) ++
      (match obs with None => if acc then [10%N] else [] | Some _ => [] end)
  | KDetRate acc rate hashes obs =>
      (if option_eqb (list_eqb dec_eqb) (all_some (map (det_decide det_start_guards_rate rate) hashes)) obs then [] else [code_mismatch]) ++
      (match obs with None => if acc then [11%N] else [] | Some _ => [] end)
  | KConfig acc lc rc sig =>
      (if lc then [16%N] else []) ++
      (if acc && rc then [if N.eqb sig 1 then 17%N else if N.eqb sig 2 then 18%N else 12%N] else [])
  | KRuleRate acc drop rate cr =>
      (if Bool.eqb (match rules_draw rules_draw_guarded drop rate with None => true | Some _ => false end) cr then [] else [code_mismatch]) ++
      (if acc && cr then [19%N] else [])
  | KRequests cr hung caught =>
      (if cr then [13%N] else []) ++ (if hung then [14%N] else []) ++ (if N.eqb caught 0 then [] else [15%N])
  end.
