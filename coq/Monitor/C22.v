(* Correspondence case and checker for C22 (event timestamps preserved exactly). *)
From Refinery Require Export Lib.Base Model.Timestamp.
Local Open Scope Z_scope.

(* how the client wrote the instant *)
Inductive tfmt :=
| FEpoch (k : nat)                         (* integer epoch, 10 + k digits *)
| FRfc (k : nat) (off : Z) (zulu : bool)   (* RFC 3339, k fractional digits, zone offset in minutes *)
| FMsgp (fmt : N).                         (* msgpack timestamp 32 / 64 / 96 *)

(* what the fake Honeycomb API found in the forwarded event's "time" field *)
Inductive tobs :=
| OMissing                                 (* the event never arrived / request rejected *)
| OTime (m : mts)                          (* a standard timestamp extension, raw fields *)
| OOther.                                  (* something a standard reader cannot use (other ext type, string, ...) *)

Record item := {
  i_fmt : tfmt;
  i_batch : bool;          (* false: X-Honeycomb-Event-Time header of /1/events; true: "time" of a /1/batch element *)
  i_t : instant;           (* the instant the client meant *)
  i_text : string;         (* the text the client sent (epoch / RFC 3339) *)
  i_mts : option mts;      (* the msgpack timestamp the client sent *)
  i_ctx : N;               (* 0: its request was handled alone; 1: its request's handling was interleaved with
                              other batch requests (deterministic hand-over); 2: posted concurrently with others *)
  i_obs : tobs
}.

Record case := { c_items : list item }.

Definition instant_eqb (a b : instant) : bool := (fst a =? fst b) && (snd a =? snd b).
Definition mts_eqb (a b : mts) : bool :=
  match a, b with
  | Ts32 x, Ts32 y => x =? y
  | Ts64 x, Ts64 y => x =? y
  | Ts96 a1 a2, Ts96 b1 b2 => (a1 =? b1) && (a2 =? b2)
  | _, _ => false
  end.
Fixpoint lascii_eqb (a b : list ascii) : bool :=
  match a, b with
  | [], [] => true
  | x :: a', y :: b' => Ascii.eqb x y && lascii_eqb a' b'
  | _, _ => false
  end.

Definition item_input (it : item) : tinput :=
  match i_mts it with
  | Some x => InMsgp x
  | None => InText (list_ascii_of_string (i_text it))
  end.

(* the client side of the specification: what was sent is the rendering of the instant *)
Definition client_ok (it : item) : bool :=
  match i_fmt it, i_mts it with
  | FEpoch k, None => lascii_eqb (render_epoch k (i_t it)) (list_ascii_of_string (i_text it))
  | FRfc k off zulu, None => lascii_eqb (render_rfc k off zulu (i_t it)) (list_ascii_of_string (i_text it))
  | FMsgp f, Some x => mts_eqb (client_mts f (i_t it)) x
  | _, _ => false
  end.

Definition model_agrees (it : item) : bool :=
  match forwarded std_cfg (item_input it), i_obs it with
  | None, OMissing => true
  | Some (WExt m), OTime m' => mts_eqb m m'
  | Some (WTiny _), OOther => true
  | _, _ => false
  end.

(* the property monitor: a standard reader gets exactly the client's instant *)
Definition obs_instant (o : tobs) : option instant :=
  match o with OTime m => if mts_wf m then decode_mts m else None | _ => None end.

Definition violation_code (it : item) : N :=
  match i_obs it with
  | OMissing => 14
  | OOther => 15
  | OTime _ =>
      if negb (i_ctx it =? 0)%N then 16 else
      match i_fmt it with
      | FEpoch O => 11
      | FEpoch _ => 10
      | FRfc _ _ _ => 12
      | FMsgp _ => 13
      end
  end%N.

Definition check_item (it : item) : codes :=
  (if client_ok it && model_agrees it then [] else [code_mismatch]) ++
  (match obs_instant (i_obs it) with
   | Some t => if instant_eqb t (i_t it) then [] else [violation_code it]
   | None => [violation_code it]
   end).

Definition check (c : case) : codes := nodup N.eq_dec (flat_map check_item (c_items c)).
