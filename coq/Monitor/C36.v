(* C36 — graceful shutdown: correspondence + monitor.
   Two kinds of cases: CColl = a collector history cut by InMemCollector.Stop (recording transmission);
   CShut = the whole in-process shutdown sequence: collector in front of a REAL upstream
   DirectTransmission (+ a real peer transmission) against scripted fake APIs, collector Stop and then
   the transmissions' Stop (observations of the transmissions in family txcfg's Monitor.C26.case format,
   checked against family txcfg's Model/Transmit.v). *)
From Refinery Require Monitor.C26.
From Refinery Require Export Monitor.CollCase_coll.

(* Monitor over the implementation's observation of a history that ends with Stop:
   10  traces were still buffered when Stop had returned: undecided, their spans never forwarded
       (KNOWN FINDING C36-stop-does-not-drain)
   11  Stop returned an error, panicked, or did not return within 10 s
   12  goroutines started by the collector were still running after Stop
   13  Stop forwarded spans of a trace whose remembered decision is drop, or forwarded a span twice
   14  a trace that left a buffer during Stop has no decision on record
   15  Stop forwarded spans of a trace that has no decision on record
   16  a trace decided keep (or decided at all, under dry run) before Stop returned has an accepted span that
       never reached the transmission (e.g. decided traces still in the outgoing queue were abandoned) *)
Definition stop_item (k : CollCase_coll.case) : option item :=
  match rev (k_items k) with
  | it :: _ => match i_op it with IStop _ => Some it | _ => None end
  | [] => None
  end.

Definition check_coll (k : CollCase_coll.case) : codes :=
  (if model_agrees k then [] else [code_mismatch]) ++
  match stop_item k with
  | None => []
  | Some it =>
      cond (forallb (fun b : bufobs => is_empty b) (o_bufs it)) 10 ++
      cond (N.eqb (k_stop k) 1) 11 ++
      cond (N.eqb (k_leak k) 0) 12 ++
      cond (nodup_N (map (fun e : ev => (fst (fst e) * 4294967296 + snd (fst e))%N) (all_fwd (k_items k))) &&
            forallb (fun e => k_dry k || negb (N.eqb (nthN (o_dec it) (ev_tid e) 0%N) 2)) (o_fwd it)) 13 ++
      cond (match i_op it with
            | IStop lefts => forallb (fun t => mem_N t (i_forgot it) || negb (N.eqb (nthN (o_dec it) t 0%N) 0)) (concat lefts)
            | _ => true end) 14 ++
      cond (forallb (fun e => mem_N (ev_tid e) (i_forgot it) || negb (N.eqb (nthN (o_dec it) (ev_tid e) 0%N) 0)) (o_fwd it)) 15 ++
      cond (forallb (fun t =>
              let d := final_dec (k_items k) t in
              was_forgot (k_items k) t || negb (N.eqb d 1 || (k_dry k && negb (N.eqb d 0))) ||
              forallb (fun sid => mem_N sid (forwarded_sids (k_items k) t) || mem_N sid (buffered_sids (final_bufs (k_items k)) t))
                      (accepted_sids (k_items k) t))
            (seqN (k_ntr k))) 16
  end.

(* ---------- the shutdown sequence with real transmissions ---------- *)
Record shut := { s_coll : CollCase_coll.case; s_up : Monitor.C26.case; s_peer : Monitor.C26.case }.
(* CCrash: the child process running a shutdown scenario died (1: panic / fatal error, 2: Stop failed or hung) *)
Inductive c36case := CColl (k : CollCase_coll.case) | CShut (s : shut) | CCrash (kind : N).

(* Transmission side.  Codes of family txcfg's C26 monitor are re-numbered 20 + (code - 10):
   20  an event enqueued before shutdown (<= 1 MB, well-formed destination) was in no request: lost by the flush
   21  an event was placed in more than one request        22 request addressed to another destination than its events
   23  body > 5 MB      24 more than MaxBatchSize events   25 (timeliness; cannot fire here)   26 attempted more than twice
   27  queued-items gauge not zero after Stop              28 oversize event sent / not counted    29 event never enqueued
   C36's own:
   30  a batch whose first attempt was answered 429/503 with a Retry-After sleep in (0, 60 s), or timed out, was not
       attempted again (its events are lost) — in particular a batch of the shutdown flush
   31  outcome accounting: response_20x + response_errors + (events of batches whose last attempt was a transport
       failure, each such batch counted by a send_errors increment) differs from the number of events enqueued —
       some event has no counted outcome, or two
   32  the spans the collector handed to the upstream transmission are not the events the transmission was given
   (a transmission's Stop returning an error, panicking or hanging is reported through code 11) *)
Definition renum (c : N) : N := if N.eqb c code_mismatch then c else (c + 10)%N.

Definition first_resp_retryable (t : Monitor.C26.case) (first : N) : bool :=
  match Monitor.C26.beh_of t first with
  | Transmit.RTimeout :: _ => true
  | Transmit.RHttp code sl _ :: _ =>
      Transmit.retryable_status code && (0 <? sl) && (sl <? Transmit.retryLim Monitor.C26.mon_limits)
  | _ => false
  end.

(* the last attempt of a request ended in a transport error (timeout / network): its events are
   accounted by ONE send_errors increment for the batch, not per event *)
Definition last_failed (t : Monitor.C26.case) (r : Monitor.C26.obs_req) : bool :=
  match nth_error (Monitor.C26.beh_of t (Monitor.C26.o_first r)) (N.to_nat (Monitor.C26.o_attempts r) - 1) with
  | Some Transmit.RTimeout | Some Transmit.RNetErr => true
  | _ => false
  end.
Definition transport_failed_events (t : Monitor.C26.case) : Z :=
  fold_right Z.add 0 (map (fun r => if last_failed t r then Z.of_nat (length (Monitor.C26.o_ids r)) else 0) (Monitor.C26.c_reqs t)).

Definition tx_codes (t : Monitor.C26.case) : codes :=
  map renum (Monitor.C26.check t) ++
  cond (forallb (fun r => negb (N.eqb (Monitor.C26.o_attempts r) 1 && first_resp_retryable t (Monitor.C26.o_first r)))
                (Monitor.C26.c_reqs t)) 30 ++
  cond (Z.eqb (nth 0 (Monitor.C26.c_cnt t) 0 + nth 1 (Monitor.C26.c_cnt t) 0 + transport_failed_events t)
              (Z.of_nat (length (Transmit.enqueued (Monitor.C26.c_ops t)))) &&
        (Z.of_nat (length (filter (last_failed t) (Monitor.C26.c_reqs t))) <=? nth 2 (Monitor.C26.c_cnt t) 0)) 31.

Definition check_shut (s : shut) : codes :=
  check_coll (s_coll s) ++ tx_codes (s_up s) ++ tx_codes (s_peer s) ++
  cond (list_eqb N.eqb (nsort (map (fun e : ev => snd (fst e)) (all_fwd (k_items (s_coll s)))))
                       (nsort (map Transmit.eid (Transmit.enqueued (Monitor.C26.c_ops (s_up s)))))) 32.

Definition case := c36case.
Definition check (k : case) : codes :=
  match k with CColl c => check_coll c | CShut s => check_shut s | CCrash kind => [if N.eqb kind 1 then 17%N else 11%N] end.
