(* C36 — graceful shutdown (collector part): correspondence + monitor. *)
From Refinery Require Export Monitor.CollCase_coll.

(* Monitor over the implementation's observation of a history that ends with Stop:
   10  traces were still buffered when Stop had returned: undecided, their spans never forwarded
       (KNOWN FINDING C36-stop-does-not-drain)
   11  Stop returned an error, panicked, or did not return within 10 s
   12  goroutines started by the collector were still running after Stop
   13  Stop forwarded spans of a trace whose remembered decision is drop, or forwarded a span twice
   14  a trace that left a buffer during Stop has no decision on record
   15  Stop forwarded spans of a trace that has no decision on record *)
Definition stop_item (k : case) : option item :=
  match rev (k_items k) with
  | it :: _ => match i_op it with IStop _ => Some it | _ => None end
  | [] => None
  end.

Definition check (k : case) : codes :=
  (if model_agrees k then [] else [code_mismatch]) ++
  match stop_item k with
  | None => []
  | Some it =>
      cond (forallb (fun b : bufobs => is_empty b) (o_bufs it)) 10 ++
      cond (N.eqb (k_stop k) 1) 11 ++
      cond (N.eqb (k_leak k) 0) 12 ++
      cond (nodup_N (map (fun e : ev => (fst (fst e) * 4294967296 + snd (fst e))%N) (all_fwd (k_items k))) &&
            forallb (fun e => k_dry k || negb (N.eqb (nthN (o_dec it) (ev_tid e) 0%N) 2)) (o_fwd it)) 13 ++
      cond (match i_op it with
            | IStop lefts => forallb (fun t => mem_N t (i_forgot it) || negb (N.eqb (nthN (o_dec it) t 0%N) 0)) (concat lefts)
            | _ => true end) 14 ++
      cond (forallb (fun e => mem_N (ev_tid e) (i_forgot it) || negb (N.eqb (nthN (o_dec it) (ev_tid e) 0%N) 0)) (o_fwd it)) 15
  end.
