(* Family route2: comparison helpers over Model/Payload.v values shared by the C20 and C19 checkers
   (definitions only; used for canonicalisation and for the boolean monitors). *)
From Refinery Require Export Lib.Base Lib.SMap_route2 Model.Payload.

Definition widen_of (t : list (N * N)) (b : N) : N :=
  match alookup b t with Some w => w | None => 0%N end.

(* ---------- structural equality and canonical order (Go maps have no order) ---------- *)
Fixpoint value_eqb (a b : value) : bool :=
  match a, b with
  | VNil, VNil => true
  | VBool x, VBool y => Bool.eqb x y
  | VInt x, VInt y => Z.eqb x y
  | VUint x, VUint y => N.eqb x y
  | VF32 x, VF32 y => N.eqb x y
  | VF64 x, VF64 y => N.eqb x y
  | VStr x, VStr y => String.eqb x y
  | VBin x, VBin y => String.eqb x y
  | VTime s n, VTime s' n' => Z.eqb s s' && N.eqb n n'
  | VExt t d, VExt t' d' => Z.eqb t t' && String.eqb d d'
  | VArr x, VArr y =>
      (fix go (x y : list value) : bool :=
         match x, y with
         | [], [] => true
         | a :: x', b :: y' => value_eqb a b && go x' y'
         | _, _ => false
         end) x y
  | VMap x, VMap y =>
      (fix go (x y : list (string * value)) : bool :=
         match x, y with
         | [], [] => true
         | (k, a) :: x', (k', b) :: y' => String.eqb k k' && value_eqb a b && go x' y'
         | _, _ => false
         end) x y
  | _, _ => false
  end.

Fixpoint vsort (v : value) : value :=
  match v with
  | VArr l => VArr (map vsort l)
  | VMap l => VMap (ssort (map (fun kv => (fst kv, vsort (snd kv))) l))
  | _ => v
  end.

Definition fsort (fs : fields) : fields := ssort (map (fun kv => (fst kv, vsort (snd kv))) fs).
Definition field_eqb (a b : string * value) : bool := String.eqb (fst a) (fst b) && value_eqb (snd a) (snd b).
Definition fields_eqb (a b : fields) : bool := list_eqb field_eqb (fsort a) (fsort b).

Fixpoint has_time (v : value) : bool :=
  match v with
  | VTime _ _ => true
  | VArr l => existsb has_time l
  | VMap l => existsb (fun kv => has_time (snd kv)) l
  | _ => false
  end.

(* the value with every standard timestamp blanked: two values that agree after blanking differ only
   in how timestamps were written *)
Fixpoint blank_time (v : value) : value :=
  match v with
  | VTime _ _ => VNil
  | VExt _ _ => VNil
  | VArr l => VArr (map blank_time l)
  | VMap l => VMap (map (fun kv => (fst kv, blank_time (snd kv))) l)
  | _ => v
  end.

Section FieldCodes.
  Variable widen : N -> N.
  Variable pa : path.
  Definition same_value (a b : value) : bool := value_eqb (vsort (canon widen a)) (vsort (canon widen b)).

  (* violation class of one client field (k, v) against the forwarded map *)
  Definition field_codes (out : fields) (kv : string * value) : codes :=
    let '(k, v) := kv in
    match slookup k out with
    | None => [10%N]
    | Some w =>
        if same_value w v then []
        else if has_time v && same_value (blank_time w) (blank_time v) then [12%N]
        else if (match pa with PEventMsgp => true | _ => false end) && has_bin v && same_value w (bin2str v)
        then [13%N]
        else [11%N]
    end.

End FieldCodes.

(* ---------- delivery scenarios on the real DirectTransmission (C19 and C20 drivers) ----------
   expected: (event id, index of its API key, index of its dataset)
   arrived : (event id read from the received fields, index of the X-Honeycomb-Team key of the request,
              index of the dataset in the request URL, the received fields are exactly the event's own) *)
Record deliv := {
  d_kind : N;      (* 1 concurrent first events of new destinations, 2 keys sharing host+dataset,
                      3 / 4 batch refused once with Retry-After, compression off / on *)
  d_expected : list (N * N * N);
  d_arrived : list (N * N * N * bool)
}.

Definition x_id (x : N * N * N) : N := fst (fst x).
Definition a_id (a : N * N * N * bool) : N := fst (fst (fst a)).
Definition arrivals_of (i : N) (l : list (N * N * N * bool)) : list (N * N * N * bool) :=
  filter (fun a => N.eqb (a_id a) i) l.

(* the delivery specification: every event arrives exactly once, under its own key and dataset,
   with exactly its own fields, and nothing else arrives *)
Definition deliv_base_codes (d : deliv) : codes :=
  let arr := d_arrived d in
  let ex := d_expected d in
  (if existsb (fun x => match arrivals_of (x_id x) arr with [] => true | _ => false end) ex then [20%N] else [])
  ++ (if existsb (fun x => (1 <? length (arrivals_of (x_id x) arr))%nat) ex then [21%N] else [])
  ++ (if existsb (fun x => existsb (fun a => negb (N.eqb (snd (fst (fst a))) (snd (fst x)) && N.eqb (snd (fst a)) (snd x)))
                                   (arrivals_of (x_id x) arr)) ex then [22%N] else [])
  ++ (if existsb (fun a => negb (snd a)) arr
         || existsb (fun a => negb (existsb (fun x => N.eqb (x_id x) (a_id a)) ex)) arr then [23%N] else []).

(* 24: any of the above in a retry scenario, i.e. the re-sent request was not the batch it was given *)
Definition deliv_codes (d : deliv) : codes :=
  match deliv_base_codes d with
  | [] => []
  | l => l ++ (if N.eqb (d_kind d) 3 || N.eqb (d_kind d) 4 then [24%N] else [])
  end.

(* the model of a correct transmission: the expected events, each once, untouched *)
Definition deliv_model (d : deliv) : list (N * N * N * bool) := map (fun x => (x, true)) (d_expected d).
