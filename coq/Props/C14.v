(* C14 — each trace is sampled by the sampler configured for its destination.
   Only theorem statements closed by [exact]; proofs live in Proofs/SamplerSel.v.
   Strings are byte lists; [rules] is the Samplers map of the rules file; [dest] is what an event
   arrives with (API key, environment name resolved for it, dataset). *)
From Refinery Require Import Lib.Base Model.TraceKey Model.SamplerSel Proofs.SamplerSel.
From Refinery Require Gen.GenC14.

(* the translator found the constructs the model follows: the two key shapes, DetermineSamplerKey,
   both lookups with the __default__ fallback, NewCoreFieldsUnmarshaler, processSpan's trace
   creation, makeDecision's selection + memoisation, the factory lookup, GetKeyFields *)
Theorem C14_source_shape :
  GenC14.legacy_switch = [["32"]; ["64"]; ["default"]]%string /\
  GenC14.legacy_classic_is_32_lower_hex = true /\ GenC14.legacy_ingest_is_64_hcxic = true /\
  GenC14.sampler_key_shape = true /\ GenC14.lookup_config_shape = true /\
  GenC14.lookup_fields_shape = true /\ GenC14.ingest_shape = true /\ GenC14.decide_shape = true /\
  GenC14.memoize_before_decision = true /\ GenC14.trace_takes_first_span_destination = true /\
  GenC14.factory_uses_lookup = true /\ GenC14.key_fields_shape = true /\
  GenC14.root_prefix = "root."%string /\ GenC14.computed_prefix = "?."%string /\
  GenC14.sampler_choice_order =
    [["v.DeterministicSampler != nil"]; ["v.RulesBasedSampler != nil"]; ["v.DynamicSampler != nil"];
     ["v.EMADynamicSampler != nil"]; ["v.EMAThroughputSampler != nil"];
     ["v.WindowedThroughputSampler != nil"]; ["v.TotalThroughputSampler != nil"]; ["default"]]%string.
Proof. exact gen_c14_ok. Qed.
Print Assumptions C14_source_shape.

(* Key classification, all byte strings: classic exactly for 32 lower-case hex digits or
   "hc"[a-z]"ic_" + 58 of [0-9a-z]; everything else (environment keys, malformed keys) is not. *)
Theorem C14_key_classification : forall k,
  is_legacy k = true <-> classic_config_key k \/ classic_ingest_key k.
Proof. exact is_legacy_spec. Qed.
Print Assumptions C14_key_classification.

Theorem C14_other_lengths_not_classic : forall k,
  length k <> 32%nat -> length k <> 64%nat -> is_legacy k = false.
Proof. exact is_legacy_false_other_lengths. Qed.
Print Assumptions C14_other_lengths_not_classic.

(* environment-scoped (non-classic) key: the sampler configured for the environment name,
   else __default__ — whatever the dataset and DatasetPrefix *)
Theorem C14_env_key_uses_environment : forall prefix r first later,
  is_legacy (d_key first) = false ->
  decide_sampler prefix r first later =
  match rfind (d_env first) r with Some d => Some d | None => rfind DEFAULT r end.
Proof. exact decide_env. Qed.
Print Assumptions C14_env_key_uses_environment.

(* classic key: the sampler configured for the dataset, prefixed with "DatasetPrefix." when set,
   else __default__ — whatever the environment *)
Theorem C14_classic_key_uses_dataset : forall prefix r first later,
  is_legacy (d_key first) = true ->
  let name := match prefix with [] => d_dataset first | _ => prefix ++ [DOT] ++ d_dataset first end in
  decide_sampler prefix r first later =
  match rfind name r with Some d => Some d | None => rfind DEFAULT r end.
Proof. exact decide_classic. Qed.
Print Assumptions C14_classic_key_uses_dataset.

(* the selected definition is one the rules file holds: under the selected name, or under
   __default__ and then only because the name has no sampler *)
Theorem C14_selected_from_rules : forall r name d,
  lookup r name = Some d -> In (name, d) r \/ (rfind name r = None /\ In (DEFAULT, d) r).
Proof. exact lookup_from_rules. Qed.
Print Assumptions C14_selected_from_rules.

(* the same selection decides which fields are extracted at ingestion of the trace's first event *)
Theorem C14_ingest_decide_agree : forall prefix r first later,
  ingest_fields prefix r first = fst (sampler_reads (decide_sampler prefix r first later)).
Proof. exact ingest_decide_agree. Qed.
Print Assumptions C14_ingest_decide_agree.

(* every field the selected sampler reads (all key fields on the root span, the non-root ones on
   every span) is among the extracted ones *)
Theorem C14_reads_available : forall prefix r first later f,
  let s := decide_sampler prefix r first later in
  In f (fst (sampler_reads s)) \/ In f (snd (sampler_reads s)) ->
  In f (ingest_fields prefix r first).
Proof. exact reads_available. Qed.
Print Assumptions C14_reads_available.

(* and every field named by the definition is extracted: root.x under the bare name x, plain
   fields as they are (computed "?." fields do not exist in events) *)
Theorem C14_root_fields_extracted : forall fields f,
  In f fields -> has_prefix ROOTP14 f = true ->
  In (skipn (length ROOTP14) f) (fst (get_key_fields fields)).
Proof. exact root_extracted. Qed.
Print Assumptions C14_root_fields_extracted.

Theorem C14_plain_fields_extracted : forall fields f,
  In f fields -> has_prefix ROOTP14 f = false -> has_prefix COMPP f = false ->
  In f (fst (get_key_fields fields)).
Proof. exact plain_extracted. Qed.
Print Assumptions C14_plain_fields_extracted.

(* Non-vacuity: the four key shapes, prefix handling, fallback, field extraction *)
Example C14_nonvacuous :
  let cfgkey := u "0123456789abcdef0123456789abcdef" in
  let ingkey := u "hcaic_0123456789abcdefghijklmnopqrstuvwxyz0123456789abcdefghijkl" in
  let envkey := u "hcaik_0123456789abcdefghijklmnopqrstuvwxyz0123456789abcdefghijkl" in
  let r : rules := [(u "prod", {| sd_type := 3; sd_fields := [u "root.svc"; u "status"; u "?.NUM_DESCENDANTS"] |});
                    (u "pfx.ds", {| sd_type := 7; sd_fields := [u "a"] |});
                    (DEFAULT, {| sd_type := 1; sd_fields := [] |})] in
  is_legacy cfgkey = true /\ is_legacy ingkey = true /\ is_legacy envkey = false /\
  is_legacy (u "0123456789ABCDEF0123456789abcdef") = false /\ is_legacy (u "short") = false /\
  option_map sd_type (decide_sampler (u "pfx") r {| d_key := envkey; d_env := u "prod"; d_dataset := u "ds" |} []) = Some 3%N /\
  option_map sd_type (decide_sampler (u "pfx") r {| d_key := cfgkey; d_env := u "prod"; d_dataset := u "ds" |} []) = Some 7%N /\
  option_map sd_type (decide_sampler [] r {| d_key := cfgkey; d_env := u "prod"; d_dataset := u "ds" |} []) = Some 1%N /\
  ingest_fields (u "pfx") r {| d_key := envkey; d_env := u "prod"; d_dataset := u "ds" |} = [u "svc"; u "status"].
Proof. vm_compute. repeat split; reflexivity. Qed.
