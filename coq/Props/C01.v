(* C01 — one keep/drop decision per trace, applied to every span.
   Statements only; proofs in Proofs/CollectorAbs.v (abstract machine invariants) and
   Proofs/CollectorRef.v (the worker model refines the abstract machine; product of workers). *)
From Refinery Require Import Lib.Base Model.Collector Proofs.CollectorAbs Proofs.CollectorRef Gen.GenC01.

(* The system: n >= 1 workers, every span of trace t routed to worker [wk t] (any function — the
   wyhash of the code is one), any sampler (a function of the config version in force and of the
   buffered spans: every sampler type, configuration and reload), dry run on or off, and ANY history
   of span arrivals, send ticks, ejections, reloads and forgotten decisions, in any interleaving
   across workers.  For every trace whose decision was never forgotten (the property's retention
   premise) there is ONE remembered decision d; if d is keep (or dry run is on) the spans forwarded
   for the trace are exactly its accepted spans — including those that arrived after the decision —
   and otherwise (dropped, or not yet decided) none of its spans has been forwarded. *)
Theorem C01_single_decision :
  forall (sampler : N -> list span -> bool) (dry : bool) (n : nat) (c : cfg) (wk : N -> nat)
         (ops : list sop) (t : N),
  routed wk ops -> (wk t < n)%nat -> ~ sys_forgot ops t ->
  let ws := fst (sys_run sampler dry (repeat (winit c) n) ops) in
  let es := snd (sys_run sampler dry (repeat (winit c) n) ops) in
  exists w, nth_error ws (wk t) = Some w /\
  match alookup t (w_dec w) with
  | Some k => if k || dry then (forall s, sys_accepted ops t s <-> forwarded es t s)
              else (forall s, ~ forwarded es t s)
  | None => forall s, ~ forwarded es t s
  end.
Proof. exact sys_all_or_none. Qed.
Print Assumptions C01_single_decision.

(* Worker count is irrelevant: worker i of the product behaves exactly like a single worker that is
   given the ops addressed to i (state and emitted events). *)
Theorem C01_worker_count_irrelevant :
  forall (sampler : N -> list span -> bool) (dry : bool) (ops : list sop) (ws : list wstate) (i : nat) (w : wstate),
  nth_error ws i = Some w ->
  nth_error (fst (sys_run sampler dry ws ops)) i = Some (fst (run sampler dry w (pops i ops))) /\
  evs_at i ops (snd (sys_run sampler dry ws ops)) = snd (run sampler dry w (pops i ops)).
Proof. exact sys_run_proj. Qed.
Print Assumptions C01_worker_count_irrelevant.

(* Once made, a decision that is not forgotten never changes, whatever happens next. *)
Theorem C01_decision_final :
  forall (sampler : N -> list span -> bool) (dry : bool) (c : cfg) (ops1 ops2 : list op) (t : N) (k : bool),
  alookup t (w_dec (fst (run sampler dry (winit c) ops1))) = Some k -> ~ In (OForget t) ops2 ->
  alookup t (w_dec (fst (run sampler dry (winit c) (ops1 ++ ops2)))) = Some k.
Proof. exact worker_decision_final. Qed.
Print Assumptions C01_decision_final.

(* At most one decision is ever made for a never-forgotten trace (ghost history of the abstract
   machine the worker refines): its decisions are [] if undecided and [(t, k)] if decided k. *)
Theorem C01_at_most_one_decision :
  forall (sampler : N -> list span -> bool) (dry : bool) (c : cfg) (ops : list op) (t : N),
  ~ In (OForget t) ops ->
  occ t (a_hist (arun dry ainit (atrans sampler dry (winit c) ops))) =
  match alookup t (w_dec (fst (run sampler dry (winit c) ops))) with Some k => [(t, k)] | None => [] end.
Proof. exact worker_single_decision. Qed.
Print Assumptions C01_at_most_one_decision.

(* The model is the code's shape: the source constructs the model depends on are still there. *)
Example C01_code_shape :
  md_records_decision && ps_sendby_only_lowered_and_requeued && ps_new_trace_sendby_is_now_plus_timeout &&
  tick_takes_expired_with_max && collect_tick_runs_send_expired_at_now && collect_send_early_branch &&
  (* retention premise: a drop decision is remembered synchronously (recent-drop set) and a config reload that
     resizes the dropped-trace filter only records the next capacity — it never re-creates a filter generation *)
  record_drop_is_synchronously_remembered && negb resize_touches_filter_generations = true.
Proof. vm_compute. reflexivity. Qed.

(* Non-vacuity: root, child, a late span after a keep and after a drop, an ejection and a reload. *)
Definition ex_sampler (ver : N) (spans : list span) : bool :=
  negb (existsb (fun s => N.eqb (s_cls s) (1 + ver)) spans).
Definition ex_sp (t i : N) (root : bool) (cls : N) : span :=
  {| s_id := i; s_tid := t; s_root := root; s_cls := cls; s_size := 10; s_age := 0 |}.
Definition ex_cfg (ver : N) : cfg := {| c_ver := ver; c_tt := 100; c_sd := 10; c_sl := 0; c_me := 0 |}.
Definition ex_ops : list op :=
  [ OSpan 0 (ex_sp 1 1 false 0); OSpan 1 (ex_sp 2 2 false 1); OSpan 2 (ex_sp 1 3 true 0);
    OTick 12 [1%N];                       (* trace 1: root + SendDelay -> kept *)
    OSpan 13 (ex_sp 1 4 false 0);         (* late span of a kept trace *)
    OEject 0 [2%N];                       (* trace 2 ejected: cls 1 -> dropped *)
    OSpan 14 (ex_sp 2 5 false 0);         (* late span of a dropped trace *)
    OReload (ex_cfg 1);
    OSpan 15 (ex_sp 3 6 false 2); OTick 200 [3%N] ].  (* decided by the reloaded sampler: dropped *)
Example C01_nonvacuous :
  forallb (fun o => match o with OForget _ => false | _ => true end) ex_ops = true /\
  concat (snd (run ex_sampler false (winit (ex_cfg 0)) ex_ops)) =
    [(1, 1, R_root); (1, 3, R_root); (1, 4, R_late)]%N /\
  w_dec (fst (run ex_sampler false (winit (ex_cfg 0)) ex_ops)) = [(3, false); (2, false); (1, true)]%N.
Proof. vm_compute. repeat split; reflexivity. Qed.
