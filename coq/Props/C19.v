(* C19 — every received event takes exactly one route.
   Only theorem statements closed by [exact]; proofs live in Proofs/Route.v (and Proofs/Payload.v).

   Vocabulary (Model/Route.v on top of Model/Payload.v):
     process widen nd pa c ua e fs   what Router.processEvent does with the event (fields fs, envelope e =
                                     API host/key, dataset, sample rate, timestamp) received on path pa by a
                                     node in state nd: Rejected (not well-formed), Refused (collector queue
                                     full, error returned) or Done l, l = the sink calls in order
     nd                              listener (incoming / peer), Collector.Stressed(), the answer of
                                     ProcessSpanImmediately, queue full, and the sharder as an arbitrary
                                     function n_owner : trace id -> None (this node) | Some address
     table / facts_of / realises     the decision table of the property and what each row means in sink calls
     handlings l                     number of sink calls in l that hand over the event itself (only a call on the
                                     peer transmission whose payload carries meta.refinery.probe = true is a marker) *)
From Refinery Require Import Lib.Base Lib.SMap_route2 Model.Payload Proofs.Payload Model.Route Proofs.Route.

(* Totality and exclusivity: for every node state, envelope and extracted payload the model of
   processEvent does exactly what the (total, first-match) decision table says. *)
Theorem C19_route_realises_decision_table : forall nd e p,
  realises nd e p (table (facts_of nd p)) (route nd e p).
Proof. exact route_realises_table. Qed.
Print Assumptions C19_route_realises_decision_table.

(* Exactly once: a non-probe event is handed over exactly once (or refused with an error when this
   node owns the trace and its collector queue is full); a probe reaches no sink; never Rejected
   once extraction succeeded. Holds on both listeners, for any ownership and stress state. *)
Theorem C19_handled_exactly_once : forall nd e p,
  match route nd e p with
  | Done l => if is_probe p then l = [] else handlings l = 1%nat
  | Refused => is_probe p = false /\ n_full nd = true /\ n_owner nd (meta_str GenC20.meta_trace_id p) = None
  | Rejected => False
  end.
Proof. exact route_exactly_once. Qed.
Print Assumptions C19_handled_exactly_once.

Theorem C19_untraced_goes_upstream_only : forall nd e p,
  is_probe p = false -> meta_str GenC20.meta_trace_id p = EmptyString ->
  route nd e p = Done [emit SUpstream e p].
Proof. exact untraced_goes_upstream_only. Qed.
Print Assumptions C19_untraced_goes_upstream_only.

Theorem C19_probes_reach_no_sink : forall nd e p, is_probe p = true -> route nd e p = Done [].
Proof. exact probes_reach_no_sink. Qed.
Print Assumptions C19_probes_reach_no_sink.

Theorem C19_owned_goes_to_collector : forall nd e p,
  is_probe p = false -> meta_str GenC20.meta_trace_id p <> EmptyString ->
  n_stressed nd && n_processed nd = false -> n_owner nd (meta_str GenC20.meta_trace_id p) = None -> n_full nd = false ->
  route nd e p = Done [emit (if n_incoming nd then SCollector else SCollectorPeer) e p].
Proof. exact owned_goes_to_collector. Qed.
Print Assumptions C19_owned_goes_to_collector.

(* End to end, from the client's fields: whatever is forwarded to the owner has the request's API key,
   dataset, sample rate and timestamp, no duplicated key, every non-reserved client field with its
   value and type (C20's statement), and nothing but reserved names besides. *)
Theorem C19_peer_forward_unchanged : forall (widen : N -> N) nd pa c ua e fs m,
  NoDup (skeys fs) ->
  process widen nd pa c ua e fs = Done [m] -> m_sink m = SPeer ->
  v_apikey (m_env m) = v_apikey e /\ v_dataset (m_env m) = v_dataset e /\
  v_rate (m_env m) = v_rate e /\ v_sec (m_env m) = v_sec e /\ v_nsec (m_env m) = v_nsec e /\
  NoDup (skeys (m_data m)) /\
  (forall k, reserved k = false ->
      option_map (canon widen) (slookup k (m_data m)) =
      option_map (fun v => canon widen (path_spec pa v)) (slookup k fs)) /\
  (forall k, In k (skeys (m_data m)) -> reserved k = true \/ In k (skeys fs)).
Proof. exact peer_forward_keeps_fields. Qed.
Print Assumptions C19_peer_forward_unchanged.

(* The probe marker a stressed node sends to the owner of a kept trace is discarded by whatever node
   receives it (two-hop statement: marshal at the sender, extraction at the receiver). *)
Theorem C19_probe_marker_discarded_by_receiver : forall (widen : N -> N) p nd' c' ua' e',
  NoDup (skeys (p_raw p)) -> NoDup (skeys (p_memo p)) ->
  match process widen nd' PBatchMsgp c' ua' e' (marshal (set_probe p)) with
  | Done l => l = []
  | Rejected => True
  | Refused => False
  end.
Proof. exact probe_marker_is_discarded. Qed.
Print Assumptions C19_probe_marker_discarded_by_receiver.

(* The shape of processEvent these statements model (order of the decisions, the only event field
   it writes, the sink calls it contains) is re-read from route.go on every run. *)
Theorem C19_source_shape : source_shape_ok = true.
Proof. exact source_shape_holds. Qed.
Print Assumptions C19_source_shape.

(* Non-vacuity: a stressed incoming node that keeps a span owned by another node: the stress path
   handles it and a probe marker goes to the owner; the same span on an unstressed node is forwarded
   to the owner with only APIHost changed. *)
Example C19_nonvacuous :
  let fs := [("trace.trace_id", VStr "t-remote"); ("name", VStr "GET /"); ("n", VUint 7)]%string in
  let c := {| trace_names := ["trace.trace_id"]; parent_names := []; key_fields := [] |}%string in
  let e := {| v_apihost := "hny"; v_apikey := "k"; v_dataset := "ds"; v_rate := 2; v_sec := 10; v_nsec := 5 |}%string in
  let own := fun t : string => if String.eqb t "t-remote" then Some "peer-1"%string else None in
  let calm := {| n_incoming := true; n_stressed := false; n_processed := false; n_kept := false; n_full := false; n_owner := own |} in
  let hot := {| n_incoming := true; n_stressed := true; n_processed := true; n_kept := true; n_full := false; n_owner := own |} in
  NoDup (skeys fs) /\
  (exists d, process (fun b => b) calm PBatchMsgp c EmptyString e fs =
     Done [{| m_sink := SPeer; m_env := with_host e "peer-1"; m_data := d; m_trace := "t-remote"; m_root := true |}]
     /\ slookup "name"%string d = Some (VStr "GET /") /\ is_probe_data d = false) /\
  (exists d d', process (fun b => b) hot PBatchMsgp c EmptyString e fs =
     Done [{| m_sink := SStress; m_env := e; m_data := d; m_trace := "t-remote"; m_root := true |};
           {| m_sink := SPeer; m_env := with_host e "peer-1"; m_data := d'; m_trace := "t-remote"; m_root := true |}]
     /\ is_probe_data d = false /\ is_probe_data d' = true).
Proof.
  split; [repeat constructor; cbn [In skeys map fst]; intros H; repeat (destruct H as [H|H]; [discriminate H|]); exact H|].
  split.
  - eexists. split; [vm_compute; reflexivity|]. split; vm_compute; reflexivity.
  - eexists. eexists. split; [vm_compute; reflexivity|]. split; vm_compute; reflexivity.
Qed.
