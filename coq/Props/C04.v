(* C04 — forwarded sample rates compose the client and Refinery rates.
   Only theorem statements closed by [exact]; proofs live in Proofs/Rates.v.
   [dec] is the trace sampler and [sdec] stress relief (arbitrary functions of the trace id: every sampler
   type, configuration and rate); [step] follows processSpan / makeDecision / send / sendTraces /
   dealWithSentTrace / ProcessSpanImmediately / mergeTraceAndSpanSampleRates; [inv] holds in every
   reachable state (C04_invariant_reachable). *)
From Refinery Require Import Lib.Base Gen.GenC04 Model.Rates Proofs.Rates.

(* General form.  Outside dry run, every span forwarded by any operation (a decision of all buffered
   traces, a late span, a stress-relief span) belongs to the operation's span / a buffered span and carries
   SampleRate = max(1, client rate) * R (uint64 arithmetic), meta.refinery.final_sample_rate = that product
   and meta.refinery.original_sample_rate = the client rate (absent iff 0), where R is the rate of a KEEP
   decision made for that span's trace by the trace sampler or by stress relief. *)
Theorem C04_forwarded_rates :
  forall dec sdec s o out_,
  inv dec sdec s -> c_dry (cf s) = false -> In out_ (snd (step dec sdec s o)) ->
  exists sp R, source s o sp /\ o_sid out_ = s_id sp /\ from_decision dec sdec (s_tid sp) R /\ rate_ok out_ sp R.
Proof. exact forwarded_rates. Qed.
Print Assumptions C04_forwarded_rates.

(* Which rate: on-time spans use the rate the trace sampler returned for the trace ... *)
Theorem C04_ontime_uses_trace_rate :
  forall dec sdec s out_,
  inv dec sdec s -> c_dry (cf s) = false -> In out_ (snd (step dec sdec s Decide)) ->
  exists tid tr sp, In (tid, tr) (buf s) /\ In sp (t_spans tr) /\ o_sid out_ = s_id sp /\
                    d_keep (dec tid) = true /\ rate_ok out_ sp (d_rate (dec tid)).
Proof. exact ontime_uses_sampler_rate. Qed.
Print Assumptions C04_ontime_uses_trace_rate.

(* ... late spans the rate recorded with the decision (and only when the trace is not also recorded dropped) ... *)
Theorem C04_late_uses_recorded_rate :
  forall dec sdec s sp out_,
  inv dec sdec s -> c_dry (cf s) = false -> In out_ (snd (step dec sdec s (Span sp))) ->
  exists r, alookup (s_tid sp) (kept s) = Some r /\ mem_N (s_tid sp) (dropped s) = false /\
            o_sid out_ = s_id sp /\ rate_ok out_ sp (r_rate r).
Proof. exact late_uses_recorded_rate. Qed.
Print Assumptions C04_late_uses_recorded_rate.

(* ... and stress-relief spans the stress-relief rate when no decision is on record, the recorded one otherwise. *)
Theorem C04_stress_uses_stress_rate :
  forall dec sdec s sp out_,
  inv dec sdec s -> c_dry (cf s) = false -> In out_ (snd (step dec sdec s (Stress sp))) ->
  o_sid out_ = s_id sp /\ o_stressed out_ = true /\
  ((alookup (s_tid sp) (kept s) = None /\ d_keep (sdec (s_tid sp)) = true /\ rate_ok out_ sp (d_rate (sdec (s_tid sp)))) \/
   (exists r, alookup (s_tid sp) (kept s) = Some r /\ rate_ok out_ sp (r_rate r))).
Proof. exact stress_uses_stress_rate. Qed.
Print Assumptions C04_stress_uses_stress_rate.

(* The recorded rate IS the decision's rate: the record does not narrow it (true because the source stores
   a uint; with the uint32 of the pinned tree this lemma - and everything above - fails). *)
Theorem C04_record_keeps_full_rate : forall r, store_rate r = r.
Proof. exact store_rate_id. Qed.
Print Assumptions C04_record_keeps_full_rate.

(* Within the property's ranges (client rate < 2^31, trace rate in [1, 2^32)) nothing wraps: the forwarded
   rate is the exact product, at least 1, and the final_sample_rate field is that number. *)
Theorem C04_exact_product :
  forall o sp R, (s_rate sp < 2147483648)%N -> (1 <= R < two32)%N -> rate_ok o sp R ->
  o_rate o = (maxone (s_rate sp) * R)%N /\ o_final o = Z.of_N (o_rate o) /\ (1 <= o_rate o)%N /\ o_orig o = s_rate sp.
Proof. exact rate_exact. Qed.
Print Assumptions C04_exact_product.

Theorem C04_invariant_reachable : forall dec sdec c ops, inv dec sdec (fst (run dec sdec (init c) ops)).
Proof. exact reachable_inv. Qed.
Print Assumptions C04_invariant_reachable.

(* Non-vacuity: stress relief keeps trace 7 at rate 2^32; its first span and a later span both carry
   3 * 2^32; trace 1 is kept by the sampler at rate 10 and a late span with no client rate carries 10. *)
Example C04_nonvacuous :
  let dec := fun t : N => if N.eqb t 1 then (10%N, true, "det"%string) else (1%N, true, EmptyString) in
  let sdec := fun t : N => (4294967296%N, true, "stress"%string) in
  let c0 := {| c_dry := false; c_reason := false; c_spancount := false; c_counts := false; c_hostmeta := false; c_attrs := [] |} in
  let sp i t r := {| s_id := i; s_tid := t; s_rate := r; s_root := false; s_ann := 0 |} in
  map (map (fun o => (o_sid o, o_rate o, o_final o, o_orig o)))
      (snd (run dec sdec (init c0) [Stress (sp 1 7 3); Stress (sp 2 7 3); Span (sp 3 1 2); Decide; Span (sp 4 1 0)]%N)) =
  [[(1%N, 12884901888%N, 12884901888%Z, 3%N)]; [(2%N, 12884901888%N, 12884901888%Z, 3%N)]; [];
   [(3%N, 20%N, 20%Z, 2%N)]; [(4%N, 10%N, 10%Z, 0%N)]].
Proof. vm_compute. reflexivity. Qed.
