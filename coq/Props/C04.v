From Refinery Require Import Lib.Base Model.Rates.
Theorem C04_placeholder : True. Proof. exact I. Qed.
Print Assumptions C04_placeholder.
