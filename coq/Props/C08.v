(* C08 — the rules sampler follows the documented rule semantics.
   Only theorem statements closed by [exact]; proofs live in Proofs/Rules.v.

   Model/Rules.v transcribes the Go code (Init / setMatchesFunction and its per-operator closures,
   conditionMatchesValue / compare, extractValueFromSpan, both scope loops with their early exits
   and counters, the rule loop of GetSampleRate).  Model/RulesSpec.v states the documented
   semantics declaratively.  fmt's float formatting, strconv.ParseFloat and regexp are function
   parameters (all theorems hold for every choice); the downstream samplers and rand.Intn are the
   oracles [ds] and [draw]. *)
From Refinery Require Import Lib.Base Model.Values Model.Rules Model.RulesSpec Proofs.Rules.
Local Open Scope string_scope.
Local Open Scope Z_scope.

(* MAIN: for every configuration the documentation gives a meaning to (config validation:
   known operators and datatypes, convertible values, valid scope, SampleRate >= 1 unless Drop or
   a downstream sampler) and EVERY trace, the Go control flow returns exactly the documented
   outcome: the first rule in order whose conditions all match under the documented semantics is
   applied (downstream sampler / drop / rate N with keep iff draw = 0), else keep at rate 1. *)
Theorem C08_rules_refine_documented_semantics :
  forall fmtv parsef rx ds draw t rules,
    rules_wf fmtv parsef rx ds O rules = true ->
    run_rules fmtv parsef rx ds draw t O rules =
    spec_outcome fmtv ds draw (doc_match fmtv parsef rx) t rules.
Proof. exact rules_refines_spec. Qed.
Print Assumptions C08_rules_refine_documented_semantics.

(* The scope loops, with their checkedOnlyRoot early exits and the `matched` counter, compute the
   exists-span / forall-condition formulation — for EVERY rule with a valid scope, well-formed
   conditions or not. *)
Theorem C08_scope_loops_are_exists_forall :
  forall fmtv parsef rx t r,
    scope_of (r_scope r) <> ScInvalid ->
    rule_matched fmtv parsef rx t r =
    (spec_rule_matches fmtv (cmatch fmtv parsef rx) t r, spec_prefix r).
Proof. exact rule_matched_structural. Qed.
Print Assumptions C08_scope_loops_are_exists_forall.

(* What the two scopes mean (trace: each condition matched by some span, has-root-span at trace
   level; span: all conditions matched by one span). *)
Theorem C08_trace_scope_meaning :
  forall fmtv cm t r,
    scope_of (r_scope r) = ScTrace ->
    (spec_rule_matches fmtv cm t r = true <->
     forall c, In c (r_conds r) ->
       if is_hasroot c then has_root t = cval_bool fmtv (c_val c)
       else exists sp, In sp (t_spans t) /\ cm c (cond_value t sp c) = true).
Proof. exact spec_trace_scope_iff. Qed.
Print Assumptions C08_trace_scope_meaning.

Theorem C08_span_scope_meaning :
  forall fmtv cm t r,
    scope_of (r_scope r) = ScSpan ->
    (spec_rule_matches fmtv cm t r = true <->
     r_conds r = [] \/
     exists sp, In sp (t_spans t) /\
                forall c, In c (r_conds r) -> cm c (cond_value t sp c) = true).
Proof. exact spec_span_scope_iff. Qed.
Print Assumptions C08_span_scope_meaning.

(* "Fields uses the first field present; root. reads the root span; ?.NUM_DESCENDANTS is
   trace-level": the value extractValueFromSpan returns is [cond_value]. *)
Theorem C08_extract_is_first_present :
  forall t sp c, fst (extract t sp c) = cond_value t sp c.
Proof. exact extract_value. Qed.
Print Assumptions C08_extract_is_first_present.

(* Typed and untyped comparisons, string operators, in / not-in, matches: every Matches closure
   (or the untyped fallback) computes the uniform documented meaning. *)
Theorem C08_condition_meaning :
  forall fmtv parsef rx c ov,
    cond_wf fmtv parsef rx c = true ->
    cmatch fmtv parsef rx c ov = doc_match fmtv parsef rx c ov.
Proof. exact cmatch_doc. Qed.
Print Assumptions C08_condition_meaning.

(* "a condition on a field absent from every span does not match unless its operator is
   not-exists" — for every condition whatsoever (no well-formedness hypothesis). *)
Theorem C08_absent_only_not_exists :
  forall fmtv parsef rx c, cmatch fmtv parsef rx c None = true -> c_op c = OpNotExists.
Proof. exact cmatch_absent. Qed.
Print Assumptions C08_absent_only_not_exists.

Theorem C08_absent_field_rule_never_matches :
  forall fmtv parsef rx t r c,
    scope_of (r_scope r) <> ScInvalid ->
    In c (r_conds r) -> is_hasroot c = false -> c_op c <> OpNotExists ->
    (forall sp, In sp (t_spans t) -> cond_value t sp c = None) ->
    fst (rule_matched fmtv parsef rx t r) = false.
Proof. exact absent_field_rule_no_match. Qed.
Print Assumptions C08_absent_field_rule_never_matches.

(* "the first rule, in configuration order" *)
Theorem C08_first_rule_in_order :
  forall fmtv cm t rules i0 i r,
    spec_first fmtv cm t i0 rules = Some (i, r) <->
    exists k, i = (i0 + k)%nat /\ nth_error rules k = Some r /\
              spec_rule_matches fmtv cm t r = true /\
              forall j r', (j < k)%nat -> nth_error rules j = Some r' ->
                           spec_rule_matches fmtv cm t r' = false.
Proof. exact spec_first_iff. Qed.
Print Assumptions C08_first_rule_in_order.

(* outcomes *)
Theorem C08_drop_rule_drops :
  forall ds draw i r,
    r_sampler r = false -> r_drop r = true -> o_keep (spec_apply ds draw i r) = false.
Proof. exact spec_apply_drop. Qed.
Print Assumptions C08_drop_rule_drops.

Theorem C08_rate_rule_keeps_iff_draw_zero :
  forall ds draw i r,
    r_sampler r = false -> r_drop r = false ->
    o_rate (spec_apply ds draw i r) = r_rate r /\
    (o_keep (spec_apply ds draw i r) = true <-> draw i = 0).
Proof. exact spec_apply_rate. Qed.
Print Assumptions C08_rate_rule_keeps_iff_draw_zero.

Theorem C08_downstream_sampler_delegates :
  forall ds draw i r d,
    r_sampler r = true -> ds i = Some d ->
    o_rate (spec_apply ds draw i r) = o_rate d /\ o_keep (spec_apply ds draw i r) = o_keep d /\
    o_key (spec_apply ds draw i r) = o_key d.
Proof. exact spec_apply_delegates. Qed.
Print Assumptions C08_downstream_sampler_delegates.

Theorem C08_no_rule_keeps_at_one :
  forall fmtv ds draw cm t rules,
    (forall r, In r rules -> spec_rule_matches fmtv cm t r = false) ->
    spec_outcome fmtv ds draw cm t rules = default_outcome /\
    o_rate default_outcome = 1 /\ o_keep default_outcome = true.
Proof. exact spec_default. Qed.
Print Assumptions C08_no_rule_keeps_at_one.

(* The Go source of every operator arm is, textually, what Model/Rules.v transcribes (tables
   regenerated from the repository on every run). *)
Theorem C08_source_arms_as_modelled : gen_tables_ok = true.
Proof. exact gen_tables_hold. Qed.
Print Assumptions C08_source_arms_as_modelled.

(* ---------- non-vacuity ---------- *)
Definition ex_fmt (d : dy) : string := "1.5".
Definition ex_parse (s : string) : option dy := None.
Definition ex_rx (p : string) : option (string -> bool) := Some (fun s => str_contains p s).
Definition ex_ds (i : nat) : option outcome := None.
Definition ex_draw (i : nat) : Z := 0.
Definition mk (f : string) (o : string) (v : cval) (dt : string) : cond :=
  {| c_field := f; c_fields := []; c_opname := o; c_val := v; c_dtname := dt |}.
Definition ex_trace : trace :=
  let root := [("http.status", SInt 500); ("name", SStr "GET /health")] in
  {| t_spans := [[("http.status", SF64 (Dy 3 (-1)))]; root]; t_root := Some root |}.
Definition ex_rules : list rule :=
  [ (* absent field under a value-coerced operator: must NOT match *)
    {| r_name := "absent"; r_rate := 1; r_drop := true; r_scope := "";
       r_conds := [mk "missing" "does-not-contain" (CScalar (CStr "x")) "string"]; r_sampler := false |};
    (* span scope: one span must satisfy both *)
    {| r_name := "span"; r_rate := 1; r_drop := true; r_scope := "span";
       r_conds := [mk "http.status" ">=" (CScalar (CInt 500)) "int";
                   mk "name" "starts-with" (CScalar (CStr "POST")) ""]; r_sampler := false |};
    (* trace scope with has-root-span, root. prefix and the virtual field *)
    {| r_name := "trace"; r_rate := 10; r_drop := false; r_scope := "trace";
       r_conds := [mk "" "has-root-span" (CScalar (CBool true)) "";
                   mk "root.name" "matches" (CScalar (CStr "health")) "";
                   mk "?.NUM_DESCENDANTS" "=" (CScalar (CInt 2)) "int";
                   mk "http.status" "<" (CScalar (CF64 (Dy 2 0))) ""]; r_sampler := false |} ].

Example C08_nonvacuous :
  rules_wf ex_fmt ex_parse ex_rx ex_ds O ex_rules = true /\
  run_rules ex_fmt ex_parse ex_rx ex_ds ex_draw ex_trace O ex_rules =
    {| o_rate := 10; o_keep := true; o_reason := "rules/trace/trace"; o_key := "" |}.
Proof. vm_compute. split; reflexivity. Qed.
