(* C25 - query endpoints require the configured token.
   Only theorem statements closed by [exact]; proofs live in Proofs/Query.v.

   [serve required clean method path hdr] dispatches a request through the gorilla/mux routing table that
   tools/translate extracted verbatim from LnS / AddOTLPMuxxer of the working tree (Gen/GenC25.v: routers,
   sub-routers with prefix and methods, middlewares, routes, in registration order) and applies
   queryTokenChecker where the table installs it.  [required] = QueryAuthToken, [hdr] = first value of the
   X-Honeycomb-Refinery-Query header ("" when absent).  The statements hold for ALL tokens, methods and paths. *)
From Refinery Require Import Lib.Base Model.Query Proofs.Query.

(* the extracted table: every route running a config/placement-revealing handler and every route below /query/
   is behind queryTokenChecker and restricted to the non-empty method list extracted for the /query/ sub-router;
   the checker's source is exactly the modelled text and never mentions the request method; its error is a 4xx *)
Theorem C25_routing_table_guards_query : table_ok = true.
Proof. exact table_ok_true. Qed.
Print Assumptions C25_routing_table_guards_query.

(* the check passes exactly for a non-empty configured token and a byte-identical header: prefixes,
   extensions, case variants, padded tokens and the empty token all fail *)
Theorem C25_token_check_exact : forall required hdr,
  authorized required hdr = true <-> required <> ""%string /\ hdr = required.
Proof. exact authorized_iff. Qed.
Print Assumptions C25_token_check_exact.

(* whatever the method and path: a handler's answer comes back only for an authorized request ... *)
Theorem C25_data_only_when_authorized : forall required clean m p hdr h,
  serve required clean m p hdr = QData h -> required <> ""%string /\ hdr = required.
Proof. exact data_only_when_authorized. Qed.
Print Assumptions C25_data_only_when_authorized.

(* ... for EVERY method: a method the extracted table does not list for the /query/ sub-router never reaches a
   revealing handler at all (and table_ok demands that the checker's source never looks at the method, so for the
   listed ones the verdict above is method-independent) *)
Theorem C25_unlisted_method_no_data : forall required clean m p hdr h,
  ~ In m query_methods -> In h sensitive -> serve required clean m p hdr <> QData h.
Proof. exact unlisted_method_no_data. Qed.
Print Assumptions C25_unlisted_method_no_data.

(* ... and no unguarded route runs one of the revealing handlers *)
Theorem C25_sensitive_never_unguarded : forall required clean m p hdr h,
  serve required clean m p hdr = QOther h -> ~ In h sensitive.
Proof. exact sensitive_never_unguarded. Qed.
Print Assumptions C25_sensitive_never_unguarded.

(* every documented query endpoint answers an authorized request and refuses every other one *)
Theorem C25_endpoints_answer_authorized : forall required m p hdr h,
  spec_endpoint m p = Some h -> authorized required hdr = true -> serve required true m p hdr = QData h.
Proof. exact documented_endpoints_answer. Qed.
Print Assumptions C25_endpoints_answer_authorized.

Theorem C25_endpoints_refuse_others : forall required m p hdr h,
  spec_endpoint m p = Some h -> authorized required hdr = false ->
  serve required true m p hdr = QDenied (fst (denied_reply required hdr)) (snd (denied_reply required hdr)).
Proof. exact documented_endpoints_refuse. Qed.
Print Assumptions C25_endpoints_refuse_others.

(* a refusal is the fixed reply: status 400 and constant text around the client's OWN token ... *)
Theorem C25_refusal_is_fixed_text : forall required hdr,
  denied_reply required hdr =
  (400%N,
   if nonempty required
   then ("{""source"":""refinery"",""error"":""unknown API key - check your credentials: token " ++
         ((hdr ++ " found in X-Honeycomb-Refinery-Query not authorized for query") ++ """}"))%string
   else "{""source"":""refinery"",""error"":""unknown API key - check your credentials: /query endpoint is not authorized for use (specify QueryAuthToken in config)""}"%string).
Proof. exact denied_reply_text. Qed.
Print Assumptions C25_refusal_is_fixed_text.

(* ... so what an unauthorized client sees does not depend on the configured token (beyond "is one configured"),
   and the sampler rules, config metadata and peers are not even inputs of the answer *)
Theorem C25_refusal_reveals_nothing : forall r1 r2 clean m p hdr,
  nonempty r1 = nonempty r2 -> authorized r1 hdr = false -> authorized r2 hdr = false ->
  serve r1 clean m p hdr = serve r2 clean m p hdr.
Proof. exact denied_reveals_nothing. Qed.
Print Assumptions C25_refusal_reveals_nothing.

Local Open Scope string_scope.
Example C25_nonvacuous :
  serve "s3cret" true "GET" "/query/rules/json/prod" "s3cret" = QData "getSamplerRules" /\
  serve "s3cret" true "GET" "/query/rules/json/prod" "s3cre" = QDenied 400
    "{""source"":""refinery"",""error"":""unknown API key - check your credentials: token s3cre found in X-Honeycomb-Refinery-Query not authorized for query""}" /\
  serve "s3cret" true "GET" "/query/trace/abc" "S3CRET" <> QData "debugTrace" /\
  serve "" true "GET" "/query/configmetadata" "" <> QData "getConfigMetadata" /\
  serve "s3cret" true "POST" "/query/allrules/yaml" "s3cret" = QOther "proxy" /\
  serve "s3cret" true "OPTIONS" "/query/trace/abc" "" = QOther "proxy" /\
  query_methods = ["GET"].
Proof. vm_compute. repeat split; try reflexivity; discriminate. Qed.
