(* C33 — the metrics store reports what was recorded.
   Only theorem statements closed by [exact]; proofs live in Proofs/Metrics.v.

   mrun false minit ops : the executable model of metrics/multi_metrics.go after the fix (Register
   creates a value cell only when it is absent); mrun true ... : the pinned code (Register stores a
   fresh zero).  uses_as k name : name is used as a metric of kind k only (registrations of it all
   say k, value operations on it are of kind k, it is not also a Store()d constant, counts >= 0). *)
From Refinery Require Import Lib.Base Model.Metrics Proofs.Metrics Gen.GenC33.

Theorem C33_source_shape :
  register_keeps_existing_counter = true /\ register_keeps_existing_gauge = true /\
  register_keeps_existing_updown = true /\ register_replaces_a_cell = false /\
  hd ""%string get_lookup_order = "stores"%string.
Proof. repeat split; vm_compute; congruence. Qed.
Print Assumptions C33_source_shape.

(* Every value cell is exactly the fold, over the whole history, of the operations addressed to it:
   operations on other metrics (or other kinds) never disturb it. Holds for any history. *)
Theorem C33_cell_is_fold_of_its_operations : forall reset ops s sl n,
  slot_ok sl ->
  getc (fst (mrun reset s ops)) sl n = fold_left (fun v o => eff reset sl n o v) ops (getc s sl n).
Proof. exact cell_run. Qed.
Print Assumptions C33_cell_is_fold_of_its_operations.

(* Counter: after any history - registrations of it (and of anything else) anywhere, any number of
   times - Get returns the sum of its increments since start (mod 2^64, the width of the cell);
   absent only if it was never registered nor incremented. *)
Theorem C33_get_counter : forall name ops,
  forallb (uses_as KCounter name) ops = true ->
  mget (fst (mrun false minit ops)) name =
  if reg_or_used name ops then Some (w64 (csum name ops)) else None.
Proof. exact get_counter. Qed.
Print Assumptions C33_get_counter.

(* ... which never decreases along a history (and is the plain sum below 2^64) *)
Theorem C33_counter_monotone : forall name a b,
  forallb (uses_as KCounter name) (a ++ b) = true -> csum name a <= csum name (a ++ b).
Proof. exact counter_monotone. Qed.
Print Assumptions C33_counter_monotone.
Theorem C33_counter_no_wrap : forall v, 0 <= v < 18446744073709551616 -> w64 v = v.
Proof. exact w64_small. Qed.
Print Assumptions C33_counter_no_wrap.

(* Gauge: the last value set (0 when only registered so far). *)
Theorem C33_get_gauge : forall name ops,
  forallb (uses_as KGauge name) ops = true ->
  mget (fst (mrun false minit ops)) name =
  match lastset s_gauge name ops None with
  | Some x => Some x
  | None => if reg_or_used name ops then Some 0 else None
  end.
Proof. exact get_gauge. Qed.
Print Assumptions C33_get_gauge.

(* Up-down counter: ups minus downs. *)
Theorem C33_get_updown : forall name ops,
  forallb (uses_as KUpDown name) ops = true ->
  mget (fst (mrun false minit ops)) name =
  if reg_or_used name ops then Some (udsum name ops) else None.
Proof. exact get_updown. Qed.
Print Assumptions C33_get_updown.

(* Interleavings, partial: taking every operation as one atomic step (its effect on the store is a
   single atomic instruction on a cell that, after the fix, is never replaced - argued, not proved),
   every interleaving of the threads' operation lists leaves the same counter / up-down value: the
   sum over all threads, whatever the order of increments and (re-)registrations. Missing for the
   full statement: the two-step (look up the cell, then update it) interleaving semantics. *)
From Coq Require Import Sorting.Permutation.
Theorem C33_interleaved_counter_partial : forall name (threads : list (list mop)) ops,
  Permutation (concat threads) ops ->
  forallb (uses_as KCounter name) (concat threads) = true ->
  mget (fst (mrun false minit ops)) name =
  if reg_or_used name (concat threads) then Some (w64 (csum name (concat threads))) else None.
Proof. exact interleaved_counter. Qed.
Print Assumptions C33_interleaved_counter_partial.
Theorem C33_interleaved_updown_partial : forall name (threads : list (list mop)) ops,
  Permutation (concat threads) ops ->
  forallb (uses_as KUpDown name) (concat threads) = true ->
  mget (fst (mrun false minit ops)) name =
  if reg_or_used name (concat threads) then Some (udsum name (concat threads)) else None.
Proof. exact interleaved_updown. Qed.
Print Assumptions C33_interleaved_updown_partial.

(* The pinned code: registering a counter again resets it (2 -> 0). *)
Theorem C33_pinned_code_reregister_resets :
  snd (mrun true minit [MReg 1 KCounter; MInc 1; MInc 1; MGet 1; MReg 1 KCounter; MGet 1; MInc 1; MGet 1]%N) =
    [Some 2; Some 0; Some 1].
Proof. exact reregister_refuted. Qed.
Print Assumptions C33_pinned_code_reregister_resets.

(* Non-vacuity: lazily re-registering components, interleaved kinds and names. *)
Example C33_nonvacuous :
  let ops := [MReg 1 KCounter; MInc 1; MCount 1 41; MReg 2 KGauge; MReg 1 KCounter; MGaugeSet 2 7;
              MUp 3; MReg 3 KUpDown; MUp 3; MDown 3; MReg 2 KGauge; MInc 1; MStore 9 5;
              MGet 1; MGet 2; MGet 3; MGet 9; MGet 4]%N in
  forallb (uses_as KCounter 1) ops = true /\ forallb (uses_as KGauge 2) ops = true /\
  forallb (uses_as KUpDown 3) ops = true /\
  snd (mrun false minit ops) = [Some 43; Some 7; Some 1; Some 5; None].
Proof. vm_compute. repeat split; reflexivity. Qed.
