(* C33 — the metrics store reports what was recorded.
   Only theorem statements closed by [exact]; proofs live in Proofs/Metrics.v.

   mrun false minit ops : the executable model of metrics/multi_metrics.go after the fix (Register
   creates a value cell only when it is absent); mrun true ... : the pinned code (Register stores a
   fresh zero).  uses_as k name : name is used as a metric of kind k only (registrations of it all
   say k, value operations on it are of kind k, it is not also a Store()d constant, counts >= 0). *)
From Refinery Require Import Lib.Base Model.Metrics Proofs.Metrics Model.MetricsConc Proofs.MetricsConc Model.Recorder Proofs.Recorder Gen.GenC33.

Theorem C33_source_shape :
  register_keeps_existing_counter = true /\ register_keeps_existing_gauge = true /\
  register_keeps_existing_updown = true /\ register_replaces_a_cell = false /\
  hd ""%string get_lookup_order = "stores"%string /\
  (* sample/sample.go: the dynsampler metrics recorder takes its snapshot while holding its mutex *)
  recorder_snapshot_taken_under_mutex = true /\ recorder_snapshot_taken_before_mutex = false /\
  recorder_counts_delta_to_last_seen = true.
Proof. repeat split; vm_compute; congruence. Qed.
Print Assumptions C33_source_shape.

(* Every value cell is exactly the fold, over the whole history, of the operations addressed to it:
   operations on other metrics (or other kinds) never disturb it. Holds for any history. *)
Theorem C33_cell_is_fold_of_its_operations : forall reset ops s sl n,
  slot_ok sl ->
  getc (fst (mrun reset s ops)) sl n = fold_left (fun v o => eff reset sl n o v) ops (getc s sl n).
Proof. exact cell_run. Qed.
Print Assumptions C33_cell_is_fold_of_its_operations.

(* Counter: after any history - registrations of it (and of anything else) anywhere, any number of
   times - Get returns the sum of its increments since start (mod 2^64, the width of the cell);
   absent only if it was never registered nor incremented. *)
Theorem C33_get_counter : forall name ops,
  forallb (uses_as KCounter name) ops = true ->
  mget (fst (mrun false minit ops)) name =
  if reg_or_used name ops then Some (w64 (csum name ops)) else None.
Proof. exact get_counter. Qed.
Print Assumptions C33_get_counter.

(* ... which never decreases along a history (and is the plain sum below 2^64) *)
Theorem C33_counter_monotone : forall name a b,
  forallb (uses_as KCounter name) (a ++ b) = true -> csum name a <= csum name (a ++ b).
Proof. exact counter_monotone. Qed.
Print Assumptions C33_counter_monotone.
Theorem C33_counter_no_wrap : forall v, 0 <= v < 18446744073709551616 -> w64 v = v.
Proof. exact w64_small. Qed.
Print Assumptions C33_counter_no_wrap.

(* Gauge: the last value set (0 when only registered so far). *)
Theorem C33_get_gauge : forall name ops,
  forallb (uses_as KGauge name) ops = true ->
  mget (fst (mrun false minit ops)) name =
  match lastset s_gauge name ops None with
  | Some x => Some x
  | None => if reg_or_used name ops then Some 0 else None
  end.
Proof. exact get_gauge. Qed.
Print Assumptions C33_get_gauge.

(* Up-down counter: ups minus downs. *)
Theorem C33_get_updown : forall name ops,
  forallb (uses_as KUpDown name) ops = true ->
  mget (fst (mrun false minit ops)) name =
  if reg_or_used name ops then Some (udsum name ops) else None.
Proof. exact get_updown. Qed.
Print Assumptions C33_get_updown.

(* Interleavings, 1 (Model/MetricsConc.v): one value cell under goroutines whose Increment / Count / Up /
   Down are the code's atomic steps - Load (hit or miss), LoadOrStore of a zero cell RETURNING THE
   WINNER, Add on the cell held - interleaved with Register (LoadOrStore) and Get by ANY schedule.
   At every point: value of the cell + increments not yet applied = all increments; hence when all
   goroutines are done the cell holds the sum of everything every goroutine added, also when their
   first uses of a fresh, unregistered name collide. *)
Theorem C33_interleaving_conservation : forall progs sched,
  let cf := run false (start progs) sched in
  cval (cell cf) + outstanding (threads cf) = total progs.
Proof. exact conservation. Qed.
Print Assumptions C33_interleaving_conservation.
Theorem C33_no_increment_lost : forall progs sched,
  finished (run false (start progs) sched) = true ->
  cval (cell (run false (start progs) sched)) = total progs.
Proof. exact no_increment_lost. Qed.
Print Assumptions C33_no_increment_lost.
(* The variant whose slow path publishes a pre-loaded fresh cell with LoadOrStore and ignores whether
   it was stored loses an increment when two first uses collide (1 + 1 = 1) - and only then. *)
Theorem C33_ignore_loaded_refuted :
  exists progs sched,
    finished (run true (start progs) sched) = true /\
    cval (cell (run true (start progs) sched)) <> total progs.
Proof. exact ignore_loaded_refuted. Qed.
Print Assumptions C33_ignore_loaded_refuted.

(* Interleavings, 2: with every operation acting atomically on its own cell (1, and cells of different
   names / kinds never disturb each other: C33_cell_is_fold_of_its_operations), every interleaving of
   the goroutines' operation lists is a permutation of their concatenation and leaves the same
   counter / up-down value: the sum over all goroutines, whatever the order of increments and
   (re-)registrations. *)
From Coq Require Import Sorting.Permutation.
Theorem C33_interleaved_counter : forall name (threads : list (list mop)) ops,
  Permutation (concat threads) ops ->
  forallb (uses_as KCounter name) (concat threads) = true ->
  mget (fst (mrun false minit ops)) name =
  if reg_or_used name (concat threads) then Some (w64 (csum name (concat threads))) else None.
Proof. exact interleaved_counter. Qed.
Print Assumptions C33_interleaved_counter.
Theorem C33_interleaved_updown : forall name (threads : list (list mop)) ops,
  Permutation (concat threads) ops ->
  forallb (uses_as KUpDown name) (concat threads) = true ->
  mget (fst (mrun false minit ops)) name =
  if reg_or_used name (concat threads) then Some (udsum name (concat threads)) else None.
Proof. exact interleaved_updown. Qed.
Print Assumptions C33_interleaved_updown.

(* The dynsampler metrics recorder (sample/sample.go) feeds the sampler's cumulative counters into the
   store as deltas to the last value seen. With the snapshot taken under the recorder's mutex, for
   every interleaving of any number of goroutines with any growth of the sampler's counters: the
   store is the last applied snapshot minus the value at registration, every Count() argument is
   >= 0 (the counter never decreases), and whenever nobody is inside RecordMetrics the store shows
   exactly the latest snapshot taken. *)
Theorem C33_recorder_follows_source : forall s0 evs,
  let c := rrun false (rinit s0) evs in
  store c = last c - s0 /\ Forall (fun d => 0 <= d) (deltas c) /\ last c <= latest c /\ latest c <= src c.
Proof. exact recorder_follows_source. Qed.
Print Assumptions C33_recorder_follows_source.
Theorem C33_recorder_store_is_latest_snapshot : forall s0 evs,
  let c := rrun false (rinit s0) evs in
  quiescent c = true -> store c = latest c - s0.
Proof. exact recorder_store_is_latest_snapshot. Qed.
Print Assumptions C33_recorder_store_is_latest_snapshot.
(* Snapshot taken before the mutex: a stale snapshot is applied after a newer one, Count(name, -2),
   the counter runs backwards (7 -> 5) and stays behind the sampler. *)
Theorem C33_recorder_snapshot_before_lock_refuted :
  exists evs,
    let c := rrun true (rinit 0) evs in
    quiescent c = true /\ store c <> latest c - 0 /\ In (-2) (deltas c) /\
    store (rrun true (rinit 0) (firstn 6 evs)) = 7 /\ store c = 5.
Proof. exact snapshot_before_lock_refuted. Qed.
Print Assumptions C33_recorder_snapshot_before_lock_refuted.

(* The pinned code: registering a counter again resets it (2 -> 0). *)
Theorem C33_pinned_code_reregister_resets :
  snd (mrun true minit [MReg 1 KCounter; MInc 1; MInc 1; MGet 1; MReg 1 KCounter; MGet 1; MInc 1; MGet 1]%N) =
    [Some 2; Some 0; Some 1].
Proof. exact reregister_refuted. Qed.
Print Assumptions C33_pinned_code_reregister_resets.

(* Non-vacuity: lazily re-registering components, interleaved kinds and names. *)
Example C33_interleaving_nonvacuous :
  finished (run false (start [[CAdd 1; CGet]; [CAdd 1]; [CReg; CAdd 5]]) [0; 1; 2; 0; 1; 2; 2; 0; 1; 2; 0]%nat) = true /\
  cell (run false (start [[CAdd 1; CGet]; [CAdd 1]; [CReg; CAdd 5]]) [0; 1; 2; 0; 1; 2; 2; 0; 1; 2; 0]%nat) = Some 7.
Proof. vm_compute. split; reflexivity. Qed.

Example C33_nonvacuous :
  let ops := [MReg 1 KCounter; MInc 1; MCount 1 41; MReg 2 KGauge; MReg 1 KCounter; MGaugeSet 2 7;
              MUp 3; MReg 3 KUpDown; MUp 3; MDown 3; MReg 2 KGauge; MInc 1; MStore 9 5;
              MGet 1; MGet 2; MGet 3; MGet 9; MGet 4]%N in
  forallb (uses_as KCounter 1) ops = true /\ forallb (uses_as KGauge 2) ops = true /\
  forallb (uses_as KUpDown 3) ops = true /\
  snd (mrun false minit ops) = [Some 43; Some 7; Some 1; Some 5; None].
Proof. vm_compute. repeat split; reflexivity. Qed.
