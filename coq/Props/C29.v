(* C29 — settings resolve with documented precedence and env expansion.
   Only theorem statements closed by [exact]; proofs live in Proofs/Settings.v.
   `settings`, `cmdenv_options`, `env_docs` and the shape flags are regenerated from config/file_config.go,
   config/cmdenv.go, config/configLoadHelpers.go and config/metadata/configMeta.yaml on every run. *)
From Refinery Require Import Lib.Base Gen.GenC29 Model.Settings Proofs.Settings.
Local Open Scope string_scope.

(* Precedence, for every setting (any number of cmdenv tags, files, any values): *)
(* a flag that is given wins over its env var, over the other tags, the files and the default *)
Theorem C29_flag_wins : forall f e r files d,
  is_set f = true -> resolve {| s_cmd := (Some f, e) :: r; s_files := files; s_default := d |} = f.
Proof. exact resolve_flag_wins. Qed.
Print Assumptions C29_flag_wins.

(* without the flag, the environment variable wins over files and default *)
Theorem C29_env_wins : forall e r files d,
  is_set e = true -> resolve {| s_cmd := (None, Some e) :: r; s_files := files; s_default := d |} = e.
Proof. exact resolve_env_wins. Qed.
Print Assumptions C29_env_wins.

(* an option that is not given hands over to the next option named by the cmdenv tag *)
Theorem C29_next_option : forall p r files d,
  match cmd_of p with Some v => is_set v = false | None => True end ->
  resolve {| s_cmd := p :: r; s_files := files; s_default := d |} = resolve {| s_cmd := r; s_files := files; s_default := d |}.
Proof. exact resolve_next_tag. Qed.
Print Assumptions C29_next_option.

(* with no option, the LAST file naming the setting wins (fs = any earlier files, k later files silent) *)
Theorem C29_later_file_overrides : forall cmd fs v k d,
  no_option cmd -> scalar v -> is_set v = true ->
  resolve {| s_cmd := cmd; s_files := fs ++ Some v :: repeat None k; s_default := d |} = v.
Proof. exact resolve_last_file_wins. Qed.
Print Assumptions C29_later_file_overrides.

(* with no option and no file naming it, the default *)
Theorem C29_default_last : forall cmd k d,
  no_option cmd -> resolve {| s_cmd := cmd; s_files := repeat None k; s_default := d |} = d.
Proof. exact resolve_default. Qed.
Print Assumptions C29_default_last.

(* ${VAR} expansion, for all strings: a reference after dollar-free text is replaced by the value (kept when
   unset), scanning resumes after the replacement; unset variables leave the whole text unchanged *)
Theorem C29_reference_expanded : forall env pre name post,
  no_char dollar pre = true -> no_char rbrace name = true -> name <> "" ->
  expand env (pre ++ "${" ++ name ++ String rbrace post) = pre ++ subst env name ++ expand env post.
Proof. exact expand_reference. Qed.
Print Assumptions C29_reference_expanded.

Theorem C29_unset_unchanged : forall env s, (forall n, env n = "") -> expand env s = s.
Proof. exact expand_unset. Qed.
Print Assumptions C29_unset_unchanged.

(* every setting of the main config whose type carries strings is rewritten by the expansion pass, and the
   effective value of such a setting is the expansion of the resolved value *)
Theorem C29_every_string_setting_expanded : forall r,
  In r settings -> carries_strings (row_under r) = true -> type_expanded (row_type r) = true.
Proof. exact every_string_setting_expanded. Qed.
Print Assumptions C29_every_string_setting_expanded.

Theorem C29_source_shape : gen_shape_ok = true /\ expansion_covers settings = true.
Proof. exact (conj gen_shape gen_expansion_covers). Qed.
Print Assumptions C29_source_shape.

(* Documented names: the environment variables and flags documented in configMeta.yaml are the ones that
   feed the setting, EXCEPT exactly two entries (known finding: OTelTracing.APIKey documents
   REFINERY_HONEYCOMB_TRACES_API_KEY but REFINERY_OTEL_TRACES_API_KEY is read; LegacyMetrics.APIKey documents
   names of a setting that no longer exists). Any further mismatch breaks this theorem. *)
Theorem C29_documented_names_partial :
  doc_mismatches settings cmdenv_options env_docs = [("LegacyMetrics", "APIKey"); ("OTelTracing", "APIKey")].
Proof. exact gen_doc_mismatches. Qed.
Print Assumptions C29_documented_names_partial.

Example C29_documented_env_refuted :
  env_feeds settings cmdenv_options "OTelTracing.APIKey" "REFINERY_HONEYCOMB_TRACES_API_KEY" = false /\
  env_feeds settings cmdenv_options "OTelTracing.APIKey" "REFINERY_OTEL_TRACES_API_KEY" = true.
Proof. vm_compute. split; reflexivity. Qed.

(* Non-vacuity: HoneycombLogger.APIKey (tags HoneycombLoggerAPIKey,HoneycombAPIKey): the second tag's env var
   beats two files; with the first tag's flag also given the flag wins; expansion of the winner. *)
Example C29_nonvacuous :
  let env := fun n => if String.eqb n "K" then "kp" else "" in
  let files := [Some (VStr "file1"); Some (VStr "file2${K}")] in
  effective env "string" {| s_cmd := [(None, None); (None, Some (VStr "env${K}${U}"))]; s_files := files; s_default := VStr "" |}
    = VStr "envkp${U}" /\
  effective env "string" {| s_cmd := [(Some (VStr "flag$${K}"), Some (VStr "e")); (None, Some (VStr "env"))]; s_files := files; s_default := VStr "" |}
    = VStr "flag$kp" /\
  effective env "string" {| s_cmd := [(None, None)]; s_files := files; s_default := VStr "d" |} = VStr "file2kp" /\
  effective env "string" {| s_cmd := []; s_files := [None; None]; s_default := VStr "d${K}" |} = VStr "dkp".
Proof. vm_compute. repeat split; reflexivity. Qed.
