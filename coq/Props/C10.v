(* C10 — deterministic sampling is a pure, nested function of the trace ID.
   Only theorem statements closed by [exact]; proofs live in Proofs/Determ.v.
   h is the value of the fixed hash of the trace ID (sha1(traceID+salt)[:4] / wyhash(traceID, seed));
   the harness passes the value the real hash returned.  All constants come from Gen/GenC10.v. *)
From Refinery Require Import Lib.Base Model.Determ Proofs.Determ.
From Refinery Require Gen.GenC10.

(* The translator found the arithmetic the model is built on (numerator, uint32 conversion,
   "<= 1 keeps all", "<=" comparison, 4 hash bytes, rate returned unchanged). *)
Theorem C10_source_shape :
  GenC10.det_max = 4294967295 /\ GenC10.det_conv_bits = 32 /\ GenC10.det_always_le = 1 /\
  GenC10.det_start_guards_wide_rates = true /\
  GenC10.det_cmp_le = true /\ GenC10.det_hash_bytes = 4 /\
  GenC10.det_rate_from_config = true /\ GenC10.det_returns_rate = true /\
  GenC10.det_hash_of_traceid_and_salt = true /\
  GenC10.det_max = DET_MAX /\ GenC10.det_conv_bits = DET_BITS /\ GenC10.det_always_le = DET_ALWAYS /\
  GenC10.det_cmp_le = DET_LE /\ GenC10.det_hash_bytes = DET_HASH_BYTES /\ GenC10.det_salt = DET_SALT.
Proof. exact gen_det_ok. Qed.
Print Assumptions C10_source_shape.

Theorem C10_source_shape_stress :
  GenC10.stress_max = 18446744073709551615 /\ GenC10.stress_zero_becomes = 1 /\
  GenC10.stress_always_le = 1 /\ GenC10.stress_cmp_le = true /\
  GenC10.stress_bound_is_quotient = true /\ GenC10.stress_hash_of_traceid_and_seed = true /\
  GenC10.stress_max = STRESS_MAX /\ GenC10.stress_zero_becomes = STRESS_ZERO /\
  GenC10.stress_always_le = STRESS_ALWAYS /\ GenC10.stress_cmp_le = STRESS_LE /\ GenC10.stress_seed = STRESS_SEED.
Proof. exact gen_stress_ok. Qed.
Print Assumptions C10_source_shape_stress.

(* Deterministic sampler, every rate 1 <= rate < 2^32 (the property asks for 1..2^31) and every hash:
   Start does not crash, the configured rate is returned (1 for rate 1), and the trace is kept
   exactly when   rate <= 1  \/  h * rate <= 2^32-1   — a threshold on the hash set by the rate,
   a function of (rate, h) only. *)
Theorem C10_det_threshold : forall rate h,
  1 <= rate < 4294967296 ->
  det_sample rate h = Some (if rate <=? 1 then 1 else rate, spec_keep DET_MAX rate h).
Proof. exact det_sample_in_range. Qed.
Print Assumptions C10_det_threshold.

(* every node / every run: two instances started from the same rate agree on every hash *)
Theorem C10_det_instances_agree : forall rate i1 i2 h,
  det_start rate = Some i1 -> det_start rate = Some i2 -> det_get i1 h = det_get i2 h.
Proof. exact det_instances_agree. Qed.
Print Assumptions C10_det_instances_agree.

(* a rate of 1 or less (any Go int, including 0 and negatives) keeps everything at rate 1
   whenever the sampler answers at all *)
Theorem C10_det_rate_le_1_keeps_all : forall rate h r k,
  rate <= 1 -> det_sample rate h = Some (r, k) -> r = 1 /\ k = true.
Proof. exact det_le1_keeps. Qed.
Print Assumptions C10_det_rate_le_1_keeps_all.

(* nesting: kept at rate N => kept at every rate M <= N *)
Theorem C10_det_nested : forall m n h,
  1 <= m -> m <= n -> n < 4294967296 -> 0 <= h ->
  det_keep n h = true -> det_keep m h = true.
Proof. exact det_nested. Qed.
Print Assumptions C10_det_nested.

(* kept fraction: among the 2^32 hash values exactly floor((2^32-1)/rate)+1 are kept, and
   2^32 <= rate * kept <= 2^32 + rate - 1, i.e. |kept/2^32 - 1/rate| < 2^-32.
   (With a uniform hash this is "1/N of random trace IDs"; uniformity of sha1 is an assumption,
   checked only statistically by the correspondence.) *)
Theorem C10_det_fraction : forall rate,
  1 <= rate < 4294967296 ->
  let kept := countN (det_keep rate) (Z.to_N det_hash_range) in
  kept = DET_MAX / rate + 1 /\
  det_hash_range <= rate * kept <= det_hash_range + rate - 1.
Proof. exact det_fraction. Qed.
Print Assumptions C10_det_fraction.

(* Start never panics, for any Go int (the guard added for C28 is part of the model) … *)
Theorem C10_det_start_never_panics : forall rate,
  -9223372036854775808 <= rate < 9223372036854775808 -> det_start rate <> None.
Proof. exact det_start_total. Qed.
Print Assumptions C10_det_start_never_panics.

(* … and rates that do not fit in 32 bits (outside C10's range) keep only the hash value 0 *)
Theorem C10_det_rates_above_32_bits : forall rate h,
  4294967296 <= rate < 9223372036854775808 ->
  det_sample rate h = Some (rate, h <=? 0).
Proof. exact det_big_rate. Qed.
Print Assumptions C10_det_rates_above_32_bits.

(* Stress relief, every configured rate 0 <= cfg < 2^64 (0 is read as 1) and every hash *)
Theorem C10_stress_threshold : forall cfg h,
  0 <= cfg < 18446744073709551616 ->
  stress_sample cfg h = (if cfg <=? 1 then 1 else cfg, spec_keep STRESS_MAX cfg h).
Proof. exact stress_sample_spec. Qed.
Print Assumptions C10_stress_threshold.

Theorem C10_stress_rate_le_1_keeps_all : forall cfg h,
  0 <= cfg <= 1 -> stress_sample cfg h = (1, true).
Proof. exact stress_le1_keeps. Qed.
Print Assumptions C10_stress_rate_le_1_keeps_all.

Theorem C10_stress_nested : forall m n h,
  0 <= m -> m <= n -> n < 18446744073709551616 -> 0 <= h ->
  stress_keep n h = true -> stress_keep m h = true.
Proof. exact stress_nested. Qed.
Print Assumptions C10_stress_nested.

Theorem C10_stress_fraction : forall cfg,
  1 <= cfg < 18446744073709551616 ->
  let kept := countN (stress_keep cfg) (Z.to_N stress_hash_range) in
  kept = STRESS_MAX / cfg + 1 /\
  stress_hash_range <= cfg * kept <= stress_hash_range + cfg - 1.
Proof. exact stress_fraction. Qed.
Print Assumptions C10_stress_fraction.

(* Non-vacuity: concrete hashes on both sides of the threshold, at the exact boundary
   (h * rate = 2^32-1 for rate 3: h = 1431655765), nesting with a strict change of decision. *)
Example C10_nonvacuous :
  det_sample 3 1431655765 = Some (3, true) /\ det_sample 3 1431655766 = Some (3, false) /\
  det_sample 2 1431655766 = Some (2, true) /\ det_sample 1 4294967295 = Some (1, true) /\
  det_sample 2147483648 1 = Some (2147483648, true) /\ det_sample 2147483648 2 = Some (2147483648, false) /\
  det_sample 4294967296 0 = Some (4294967296, true) /\ det_sample 4294967296 1 = Some (4294967296, false) /\
  det_sample 0 77 = Some (1, true) /\ det_sample (-4294967296) 77 = Some (1, true) /\
  stress_sample 0 18446744073709551615 = (1, true) /\
  stress_sample 3 6148914691236517205 = (3, true) /\ stress_sample 3 6148914691236517206 = (3, false) /\
  stress_sample 18446744073709551615 1 = (18446744073709551615, true) /\
  stress_sample 18446744073709551615 2 = (18446744073709551615, false).
Proof. vm_compute. repeat split; reflexivity. Qed.
