(* C28 (PARTIAL) — no accepted configuration or request can crash Refinery.
   What is proved: (a) every run-time-panic site of the syntactic inventory regenerated from the source
   (Gen/GenC28.v: all integer divisions / modulo, explicit panic / os.Exit / log.Fatal calls and unchecked type
   assertions of the anchored packages, plus the index / slice expressions of the listed input-handling
   functions) has a disposition, so a NEW site is an undischarged obligation; (b) the sites that configuration
   values reach are modelled and proved panic-free for ALL inputs with the guards now in the source, and the
   same models without the guards are refuted (the two findings); (c) the guard arithmetic of the remaining
   index / slice sites.  What is NOT proved (searched only, by the fuzzing driver): panics inside third-party
   decoders, sites outside the inventory (index expressions in functions not listed), resource exhaustion, hangs. *)
From Refinery Require Import Lib.Base Model.Panics Model.PanicFacts Proofs.Panics Gen.GenC28.

Theorem C28_inventory_covered_partial : forallb covered all_sites = true.
Proof. exact inventory_covered. Qed.
Print Assumptions C28_inventory_covered_partial.

(* GetKeyFields on ANY field list (with the constants and the guard flag regenerated from the source) *)
Theorem C28_key_fields_never_panics : forall fields,
  key_fields root_prefix computed_prefix key_fields_skips_empty fields <> None.
Proof. exact key_fields_gen_safe. Qed.
Print Assumptions C28_key_fields_never_panics.

Theorem C28_key_fields_unguarded_refuted : key_fields "root." "?." false ["a"; ""]%string = None.
Proof. exact key_fields_unguarded_refuted. Qed.
Print Assumptions C28_key_fields_unguarded_refuted.

(* DeterministicSampler.Start + GetSampleRate on ANY int sample rate and any hash value *)
Theorem C28_deterministic_sampler_never_panics : forall rate v,
  det_decide det_start_guards_rate rate v <> None.
Proof. exact det_decide_gen_safe. Qed.
Print Assumptions C28_deterministic_sampler_never_panics.

Theorem C28_deterministic_bound_unchanged : forall rate,
  1 < rate <= max_u32 -> det_upper_bound true rate = det_upper_bound false rate.
Proof. exact det_upper_bound_same. Qed.
Print Assumptions C28_deterministic_bound_unchanged.

Theorem C28_deterministic_unguarded_refuted : forall k, det_upper_bound false (k * two32) = None.
Proof. exact det_upper_bound_unguarded_refuted. Qed.
Print Assumptions C28_deterministic_unguarded_refuted.

(* guard arithmetic of the listed slice / index sites *)
Theorem C28_guards_partial :
  (forall len, len = 64 -> slice_ok len 0 2 /\ slice_ok len 3 6 /\ index_ok len 2 /\ (forall i, 6 <= i < len -> index_ok len i)) /\
  (forall len, 10 < len -> slice_ok len 0 10 /\ slice_ok len 10 len) /\
  (forall len sep, 2 <= len -> 0 <= sep < len -> slice_ok len 0 sep /\ slice_ok len (sep + 1) len) /\
  (forall len idx, 2 <= len -> 1 <= idx < len ->
     slice_ok len 0 1 /\ slice_ok len 1 len /\ slice_ok (len - 1) 0 (idx - 1) /\ slice_ok (len - 1) idx (len - 1)) /\
  (forall n h, 1 <= n -> 0 <= h -> index_ok n (h mod n)).
Proof.
  exact (conj legacy_key_64 (conj event_time_slices (conj stress_message_slices (conj peer_command_slices worker_index)))).
Qed.
Print Assumptions C28_guards_partial.

Theorem C28_fixes_present : key_fields_skips_empty && det_start_guards_rate && det_rate_le_1_keeps && http_has_panic_catcher &&
  validation_rejects_negative_durations && rates_clamped && batch_ticker_clamped &&
  (ema_throughput_interval_bounded && duration_bounds_keep_fraction) && rules_draw_guarded &&
  queue_sizes_validated_nonnegative && root_field_skipped_without_root && event_time_slices_guarded = true.
Proof. exact fixes_present. Qed.
Print Assumptions C28_fixes_present.

(* Negative durations: accepted by the validator of the pinned tree and fatal in time.NewTicker; rejected now. *)
Theorem C28_accepted_duration_ticker_safe : forall d default,
  0 < default -> duration_accepted validation_rejects_negative_durations d = true -> new_ticker d default <> None.
Proof. exact ticker_safe_when_accepted. Qed.
Print Assumptions C28_accepted_duration_ticker_safe.

Theorem C28_negative_duration_refuted_before_fix :
  duration_accepted false (-1000000000) = true /\ new_ticker (-1000000000) 30000000000 = None.
Proof. exact ticker_refuted_before_fix. Qed.
Print Assumptions C28_negative_duration_refuted_before_fix.

(* EMAThroughputSampler.AdjustmentInterval: dynsampler-go refuses a non-zero interval below 1ms (its Start error is not
   looked at, the first decision then writes to a nil map). The rules metadata now carries the bound and durations are
   compared with bounds without truncation to whole milliseconds (both facts regenerated from the source). *)
Theorem C28_ema_throughput_interval_safe : forall d,
  ema_interval_accepted ema_bound_present d = true -> ema_throughput_first_decision d <> None.
Proof. exact ema_interval_gen_safe. Qed.
Print Assumptions C28_ema_throughput_interval_safe.

Theorem C28_ema_throughput_interval_refuted_before_fix :
  exists d, ema_interval_accepted false d = true /\ ema_throughput_first_decision d = None.
Proof. exact ema_interval_refuted_before_fix. Qed.
Print Assumptions C28_ema_throughput_interval_refuted_before_fix.

(* Negative rates (documented as "1 or less keeps everything", so accepted): clamped before the unsigned conversion now. *)
Theorem C28_sampler_draw_never_panics : forall r,
  - 9223372036854775808 <= r < 9223372036854775808 -> sampler_draw rates_clamped r <> None.
Proof. exact sampler_draw_gen_safe. Qed.
Print Assumptions C28_sampler_draw_never_panics.

Theorem C28_sampler_draw_unclamped_refuted : sampler_draw false (-1) = None.
Proof. exact sampler_draw_unclamped_refuted. Qed.
Print Assumptions C28_sampler_draw_unclamped_refuted.

(* Traces.BatchTimeout with 0 < d < 4ns passes validation; NewTicker(d/4) = NewTicker(0) panicked at startup.
   DirectTransmission.Start now clamps the timeout to >= 4ns. *)
Theorem C28_batch_ticker_never_panics : forall d, batch_ticker batch_ticker_clamped d <> None.
Proof. exact batch_ticker_gen_safe. Qed.
Print Assumptions C28_batch_ticker_never_panics.

Theorem C28_batch_ticker_refuted_before_fix :
  exists d, duration_accepted true d = true /\ d <> 0 /\ batch_ticker false d = None.
Proof. exact batch_ticker_refuted. Qed.
Print Assumptions C28_batch_ticker_refuted_before_fix.

(* RulesBasedSampler: a rule with a static SampleRate (any int, validation does not bound it) and no downstream
   sampler never reaches rand.Intn with a non-positive argument, because of the guard `rule.SampleRate > 0`
   (extracted from the source); with the weaker guard `!= 0` a negative rate panics. *)
Theorem C28_rules_draw_never_panics : forall drop rate, rules_draw rules_draw_guarded drop rate <> None.
Proof. exact rules_draw_gen_safe. Qed.
Print Assumptions C28_rules_draw_never_panics.

Theorem C28_rules_draw_weak_guard_refuted : rules_draw false false (-1) = None.
Proof. exact rules_draw_weak_guard_refuted. Qed.
Print Assumptions C28_rules_draw_weak_guard_refuted.

(* Collection.PeerQueueSize / IncomingQueueSize: a negative size passed validation and make(chan, negative) panicked
   at startup; the metadata now demands >= 0 (fact regenerated from configMeta.yaml). *)
Theorem C28_worker_queue_never_panics : forall size workers,
  1 <= workers -> queue_size_accepted queue_sizes_validated_nonnegative size = true -> worker_queue size workers <> None.
Proof. exact worker_queue_gen_safe. Qed.
Print Assumptions C28_worker_queue_never_panics.

Theorem C28_worker_queue_refuted_before_fix : queue_size_accepted false (-1) = true /\ worker_queue (-1) 1 = None.
Proof. exact worker_queue_refuted_before_fix. Qed.
Print Assumptions C28_worker_queue_refuted_before_fix.

(* sample/rules.go extractValueFromSpan: for every field list, with or without a root span, with the nested-field
   fallback on or off, the local span variable is not nil when it is dereferenced (the `root.`-prefixed field of a
   rootless trace is skipped BEFORE the variable is assigned — extracted fact); the flattened variant that assigns
   first dereferences nil on a rootless trace with CheckNestedFields. *)
Theorem C28_extract_value_never_nil : forall has_root nested fields,
  extract_value root_field_skipped_without_root has_root nested fields <> None.
Proof. exact extract_value_gen_safe. Qed.
Print Assumptions C28_extract_value_never_nil.

Theorem C28_extract_value_flattened_refuted : extract_value false false true [(true, false)] = None.
Proof. exact extract_value_flattened_refuted. Qed.
Print Assumptions C28_extract_value_flattened_refuted.

(* route.getEventTime (X-Honeycomb-Event-Time header and batch "time" field): an integer-looking value of ANY length never
   makes the [:10] / [10:] slices go out of range, because that branch is reached only for len > 10 — a fact taken from
   the path conditions of the two slice sites; with a plain `else` a value shorter than 10 characters panics. *)
Theorem C28_event_time_never_panics : forall len, event_time_slice event_time_slices_guarded len <> None.
Proof. exact event_time_slice_gen_safe. Qed.
Print Assumptions C28_event_time_never_panics.

Theorem C28_event_time_plain_else_refuted : event_time_slice false 1 = None.
Proof. exact event_time_slice_plain_else_refuted. Qed.
Print Assumptions C28_event_time_plain_else_refuted.

(* Non-vacuity: the models compute the documented results on ordinary inputs *)
Example C28_nonvacuous :
  key_fields root_prefix computed_prefix key_fields_skips_empty ["root.service"; "http.status"; "?.NUM_DESCENDANTS"; ""; "http.status"]%string
    = Some (["service"; "http.status"]%string, ["http.status"; "http.status"]%string) /\
  det_decide det_start_guards_rate 4294967296 0 = Some (4294967296, true) /\
  det_decide det_start_guards_rate 4294967296 1 = Some (4294967296, false) /\
  det_decide det_start_guards_rate 10 429496729 = Some (10, true) /\
  Nat.ltb 40 (length dispositions) = true.
Proof. vm_compute. repeat split; reflexivity. Qed.
