(* C24 - ingest authorization and key replacement are uniform across protocols.
   Only theorem statements closed by [exact]; proofs live in Proofs/Auth.v.

   [enter e c kid_of key] interprets the accept / replace / assign / validate / translate script that
   tools/translate extracted from entry point [e] of the working tree (Gen/GenC24.v) over the model of
   AccessKeyConfig.IsAccepted / GetReplaceKey, for configuration [c], key-ID oracle [kid_of] (what Honeycomb's
   /1/auth reports) and client key [key].  All statements hold for ALL configurations (any ReceiveKeys,
   ReceiveKeyIDs, SendKey, SendKeyMode string, AcceptOnlyListedKeys), all oracles and all keys. *)
From Refinery Require Import Lib.Base Model.Auth Proofs.Auth.

(* The source text of IsAccepted's condition and of every arm of GetReplaceKey's switch, and the order of
   steps in the six entry points, are the ones the model and the proofs were written for. *)
Theorem C24_source_matches_model : tables_ok = true /\ scripts_ok = true.
Proof. exact (conj tables_ok_true scripts_ok_true). Qed.
Print Assumptions C24_source_matches_model.

(* GetReplaceKey computes exactly the documented SendKeyMode table; its only error is a blank result. *)
Theorem C24_replace_is_documented_table : forall c key kid,
  get_replace_key c key kid = if nonempty (doc_out c key kid) then Some (doc_out c key kid) else None.
Proof. exact replace_table. Qed.
Print Assumptions C24_replace_is_documented_table.

(* Every entry point = the specification: accepted iff the CLIENT's key passes the AcceptOnlyListedKeys rule
   (and the outgoing key is not blank); the data then carries the table's key for the client's key. *)
Theorem C24_entry_refines_spec : forall e c kid_of key, enter e c kid_of key = spec c kid_of key.
Proof. exact enter_spec. Qed.
Print Assumptions C24_entry_refines_spec.

Theorem C24_uniform_across_protocols : forall e1 e2 c kid_of key, enter e1 c kid_of key = enter e2 c kid_of key.
Proof. exact enter_uniform. Qed.
Print Assumptions C24_uniform_across_protocols.

Theorem C24_accepted_exactly_when : forall e c kid_of key,
  (exists k, enter e c kid_of key = Sent k) <->
  (accept_spec c key (key_id c kid_of key) = true /\ doc_out c key (key_id c kid_of key) <> ""%string).
Proof. exact enter_accepts_iff. Qed.
Print Assumptions C24_accepted_exactly_when.

(* for a key that is present the blank-key caveat disappears: accepted exactly by the listed-keys rule *)
Theorem C24_nonblank_accepted_exactly_when : forall e c kid_of key, key <> ""%string ->
  ((exists k, enter e c kid_of key = Sent k) <-> accept_spec c key (key_id c kid_of key) = true).
Proof. exact enter_accepts_nonblank. Qed.
Print Assumptions C24_nonblank_accepted_exactly_when.

Theorem C24_sends_documented_key : forall e c kid_of key k,
  enter e c kid_of key = Sent k -> k = doc_out c key (key_id c kid_of key).
Proof. exact enter_sends_table_key. Qed.
Print Assumptions C24_sends_documented_key.

Theorem C24_never_blank : forall e c kid_of key k, enter e c kid_of key = Sent k -> k <> ""%string.
Proof. exact enter_never_blank. Qed.
Print Assumptions C24_never_blank.

(* The pinned tree (before repo commit "fix: gRPC traces check AcceptOnlyListedKeys on the client's key"):
   acceptance ran on the already-replaced key, so with AcceptOnlyListedKeys + SendKeyMode all an unlisted key
   was accepted and its data forwarded with SendKey. *)
Theorem C24_pinned_grpc_trace_refuted :
  run PGrpcTrace witness_cfg (fun _ => ""%string) pinned_grpc_trace "intruder" "intruder" = Sent "sendkey"%string /\
  spec witness_cfg (fun _ => ""%string) "intruder" = Rejected.
Proof. exact pinned_grpc_trace_refuted. Qed.
Print Assumptions C24_pinned_grpc_trace_refuted.

(* Non-vacuity: the README scenario "only applications knowing a secret may send, central key preferred". *)
Local Open Scope string_scope.
Example C24_nonvacuous :
  let c := {| ak_receive := ["secret"]; ak_receive_ids := ["kid-1"]; ak_send := "central"; ak_mode := "listedonly";
              ak_only_listed := true |} in
  let kid_of := fun k => if String.eqb k "byid" then "kid-1" else "" in
  enter EGrpcTrace c kid_of "secret" = Sent "central" /\
  enter EV1Batch c kid_of "byid" = Sent "central" /\
  enter EOtlpLogsHttp c kid_of "central" = Sent "central" /\
  enter EGrpcLogs c kid_of "other" = Rejected /\
  enter EOtlpTraceHttp c kid_of "" = Rejected.
Proof. vm_compute. repeat split; reflexivity. Qed.
