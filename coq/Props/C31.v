(* C31 — the decision cache remembers what it promises.
   Only theorem statements closed by [exact]; proofs live in Proofs/SentCache.v.
   Everywhere: [h] is the reason hash and [slots_of] the cuckoo sizing rule (arbitrary functions);
   [step]/[run] follow cuckooSentCache / CuckooTraceChecker / KeptReasonsCache; the order in which
   CheckSpan and CheckTrace consult their sources, the queue depth, the thresholds and the TTL are the
   values the translator read from the Go source (Gen.GenC31). *)
From Refinery Require Import Lib.Base Gen.GenC31 Model.SentCache Proofs.SentCache.

(* Kept half, from a record.  After Record(x, kept, rate, reason), for EVERY history [ops] that does not
   re-record x and in which the number of distinct other trace ids recorded-kept or consulted stays below
   the smallest per-worker kept capacity in force (resizes included), CheckTrace x / CheckSpan x answer
   "kept" with the recorded rate (as stored: [store_rate] is the identity when the record holds a uint,
   mod 2^32 when it holds a uint32 - read from the source) and the recorded reason — unless x is (also) in the
   dropped filter / recent-drop set, in which case "dropped" wins (C31_dropped_wins).
   Hypotheses granted by the property: the invariant of reachable states (C31_invariant_reachable), no
   hash collision between [reason] and the reasons interned so far (the reasons cache indexes by a 64-bit
   hash), fewer than 2^32 - 1 distinct reasons. *)
Theorem C31_kept_recent_after_record :
  forall (h : string -> N) (slots_of : N -> N) c x rate reason d e l sp ops,
  cache_inv c -> reasons_wf h (rs c) -> (0 < kcap c)%N ->
  (forall s', In s' (r_data (rs c)) -> h s' = h reason -> s' = reason) ->
  (N.of_nat (length (r_data (rs c))) + 1 < two32)%N ->
  forallb (fun o => negb (records_kept x o)) ops = true ->
  (card (touched_others x ops) < min_cap (kcap c) ops)%N ->
  let c2 := run h slots_of (fst (step h slots_of c (RecKept x rate reason d e l sp))) ops in
  chk_check x (chk c2) = false ->
  (exists d' e' l' s', snd (step h slots_of c2 (ChkTrace x)) = AKept (store_rate rate) d' e' l' s' reason) /\
  (forall ann, recent_contains x c2 = false ->
     exists d' e' l' s', snd (step h slots_of c2 (ChkSpan x ann)) = AKept (store_rate rate) d' e' l' s' reason).
Proof. exact kept_recent_record. Qed.
Print Assumptions C31_kept_recent_after_record.

(* Kept half, from a consultation: a lookup that answered "kept" refreshes recency exactly like a record. *)
Theorem C31_kept_recent_after_consult :
  forall (h : string -> N) (slots_of : N -> N) c x (span : option N) rate d e l s reason ops,
  cache_inv c ->
  let o := match span with Some ann => ChkSpan x ann | None => ChkTrace x end in
  snd (step h slots_of c o) = AKept rate d e l s reason ->
  forallb (fun o => negb (records_kept x o)) ops = true ->
  (card (touched_others x ops) < min_cap (kcap c) ops)%N ->
  let c2 := run h slots_of (fst (step h slots_of c o)) ops in
  chk_check x (chk c2) = false ->
  (exists d' e' l' s', snd (step h slots_of c2 (ChkTrace x)) = AKept rate d' e' l' s' reason) /\
  (forall ann, recent_contains x c2 = false ->
     exists d' e' l' s', snd (step h slots_of c2 (ChkSpan x ann)) = AKept rate d' e' l' s' reason).
Proof. exact kept_recent_consult. Qed.
Print Assumptions C31_kept_recent_after_consult.

(* Resize keeps exactly the newest entries, in recency order, up to the new per-worker capacity. *)
Theorem C31_resize_keeps_newest :
  forall (h : string -> N) (slots_of : N -> N) c ksz dsz wc,
  cache_inv c -> per_worker ksz wc <> 0%N ->
  kept (fst (step h slots_of c (Resize ksz dsz wc))) = firstn (N.to_nat (per_worker ksz wc)) (kept c).
Proof. exact resize_newest. Qed.
Print Assumptions C31_resize_keeps_newest.

(* Dropped wins: an id present in the current dropped filter is answered "dropped" whatever the kept LRU holds. *)
Theorem C31_dropped_wins :
  forall (h : string -> N) (slots_of : N -> N) c x, chk_check x (chk c) = true ->
  snd (step h slots_of c (ChkTrace x)) = ADropped /\ forall ann, snd (step h slots_of c (ChkSpan x ann)) = ADropped.
Proof. exact dropped_wins. Qed.
Print Assumptions C31_dropped_wins.

(* Dropped half.  Record(x, dropped) with room in the add queue, any operations that do not drain,
   a drain, then ANY history with no rotation — or at most one rotation when the future filter already
   existed at the drain — still answers "dropped" for x (ideal filter: no false positives, no failed
   inserts; no queue overflow by hypothesis). *)
Theorem C31_dropped_until_rotation :
  forall (h : string -> N) (slots_of : N -> N) c x ops1 ops2,
  (N.of_nat (length (queue (chk c))) < add_queue_depth)%N ->
  forallb (fun o => negb (draining o)) ops1 = true ->
  let c1 := run h slots_of (fst (step h slots_of c (RecDropped x))) ops1 in
  let c2 := fst (step h slots_of c1 Drain) in
  (rotations h slots_of c2 ops2 = 0%nat \/ (fut (chk c1) <> None /\ (rotations h slots_of c2 ops2 <= 1)%nat)) ->
  let c3 := run h slots_of c2 ops2 in
  snd (step h slots_of c3 (ChkTrace x)) = ADropped /\ forall ann, snd (step h slots_of c3 (ChkSpan x ann)) = ADropped.
Proof. exact dropped_until_rotation. Qed.
Print Assumptions C31_dropped_until_rotation.

(* A rotation (the only way a drained id leaves the filter) happens only at a Maintain that finds the
   current filter above the "full" threshold, and then the filter holds more inserts than the nominal
   capacity it was created for, provided the third-party sizing leaves the usual 4 % slack. *)
Theorem C31_rotation_only_when_filled :
  forall k, chk_rotates k = true ->
  let g := cur (chk_drain k) in
  (100 * g_cap g <= 96 * g_slots g)%N -> (g_cap g < g_count g)%N.
Proof. exact rotation_only_when_filled. Qed.
Print Assumptions C31_rotation_only_when_filled.

(* ... and the filter installed by a rotation always exists (the Go code would install nil otherwise). *)
Theorem C31_rotation_installs_a_filter :
  forall (slots_of : N -> N) k, chk_rotates k = true ->
  (exists f, fut (chk_drain k) = Some f /\ cur (chk_maintain slots_of k) = f) \/
  (fut (chk_drain k) = None /\ cur (chk_maintain slots_of k) = new_gen slots_of (capa k)
   /\ load_gt half_num half_den (cur (chk_drain k)) = true).
Proof. exact rotation_installs_a_filter. Qed.
Print Assumptions C31_rotation_installs_a_filter.

(* ... and the rotation creates a fresh future generation, so that a drop recorded right after a rotation is held by
   both generations and (C31_dropped_until_rotation, second alternative) survives the next rotation too. *)
Theorem C31_rotation_creates_a_future :
  forall (slots_of : N -> N) k, chk_rotates k = true ->
  fut (chk_maintain slots_of k) = Some (new_gen slots_of (capa k)).
Proof. exact rotation_creates_a_future. Qed.
Print Assumptions C31_rotation_creates_a_future.

(* CheckSpan answers "dropped" right after the record, before any drain (recent-drop set). *)
Theorem C31_checkspan_sees_recent_drop :
  forall (h : string -> N) (slots_of : N -> N) c x ann,
  snd (step h slots_of (fst (step h slots_of c (RecDropped x))) (ChkSpan x ann)) = ADropped.
Proof. exact checkspan_recent. Qed.
Print Assumptions C31_checkspan_sees_recent_drop.

(* The invariant assumed above holds in every reachable state. *)
Theorem C31_invariant_reachable :
  forall (h : string -> N) (slots_of : N -> N) ksz dsz wc t0 ops,
  let c := run h slots_of (cache_init slots_of ksz dsz wc t0) ops in
  cache_inv c /\ reasons_wf h (rs c).
Proof. exact reachable_inv. Qed.
Print Assumptions C31_invariant_reachable.

(* Non-vacuity: capacity 2; a is recorded kept with a rate above 2^32, b and c follow, a is consulted in
   between, so b is the one evicted; d is dropped and drained. *)
Example C31_nonvacuous :
  let h := fun s : string => N.of_nat (String.length s) in
  let ops := [RecKept 1 4294967301 "rule-a" 3 0 0 3; RecKept 2 7 "r2" 1 0 0 1; ChkTrace 1;
              RecKept 3 9 "rule-a" 1 0 0 1; RecDropped 4; Drain; ChkTrace 1; ChkTrace 2; ChkTrace 4;
              Resize 1 16 1; ChkTrace 3; ChkTrace 1]%N in
  run_out h (fun c => 4 * c)%N (cache_init (fun c => 4 * c)%N 2 4 1 0) ops =
  [AUnit; AUnit; AKept (store_rate 4294967301) 3 0 0 3 "rule-a"; AUnit; AUnit; AState 1 16 None 0;
   AKept (store_rate 4294967301) 3 0 0 3 "rule-a"; ANotFound; ADropped; AUnit; ANotFound;
   AKept (store_rate 4294967301) 3 0 0 3 "rule-a"]%N.
Proof. vm_compute. reflexivity. Qed.
