(* C17 — all nodes agree on which peer owns each trace; single hop; never forward to self.
   Only theorem statements closed by [exact]; proofs live in Proofs/Shard.v.
   H is wyhash.Hash as an arbitrary function; salt/seed/partition count/strictness are arbitrary
   (the Monitor instantiates them with the values regenerated from the source, Gen/GenC17.v);
   [GenC17.sorts_peers] is the regenerated flag "loadPeerList sorts newPeers": the theorems are about the
   model instance with that flag, so removing the sort from the source breaks these proofs. *)
From Refinery Require Import Lib.Base Model.Shard Proofs.Shard Proofs.ShardMax Gen.GenC17.
From Coq Require Import Sorting.Sorted Sorting.Permutation.

(* (1) Every node runs the same binary, i.e. the same sort.Slice function [srt] (ANY function):
   nodes that hold permutations of one peer list compute the same owner for every trace id.
   No assumption on the hash at all. *)
Theorem C17_owner_perm_invariant : forall H salt seed0 pcount strict (srt : list part -> list part) peers1 peers2 tid,
  Permutation peers1 peers2 ->
  which_with H salt seed0 pcount strict sorts_peers srt peers1 tid =
  which_with H salt seed0 pcount strict sorts_peers srt peers2 tid.
Proof. exact owner_perm_invariant_fn. Qed.
Print Assumptions C17_owner_perm_invariant.

(* (1') Nodes may even use different sort.Slice implementations / tie orders: [hs1], [hs2] are ANY lists
   sorted by uhash that are permutations of the partition list. Then the owners agree provided equal
   partition hashes occur only between partitions of the same address ([benign]: no 64-bit wyhash
   collision among the <= 50+n partition hashes of different peers). C17_collision_matters shows that
   this hypothesis cannot be dropped in this generality. *)
Theorem C17_owner_perm_invariant_any_sort : forall H salt seed0 pcount strict peers1 peers2 hs1 hs2 tid,
  Permutation peers1 peers2 ->
  hash_order H salt seed0 pcount (load_peers sorts_peers peers1) hs1 ->
  hash_order H salt seed0 pcount (load_peers sorts_peers peers2) hs2 ->
  benign H salt seed0 pcount (load_peers sorts_peers peers1) ->
  owner H strict (load_peers sorts_peers peers1) hs1 tid = owner H strict (load_peers sorts_peers peers2) hs2 tid.
Proof. exact owner_perm_invariant. Qed.
Print Assumptions C17_owner_perm_invariant_any_sort.

Theorem C17_collision_matters :
  let lp := ["a"; "b"]%string in
  let hs1 := [{| uhash := 5; pix := 0 |}; {| uhash := 5; pix := 1 |}]%N in
  let hs2 := [{| uhash := 5; pix := 1 |}; {| uhash := 5; pix := 0 |}]%N in
  hash_order Hcoll "x" 1 0 lp hs1 /\ hash_order Hcoll "x" 1 0 lp hs2 /\
  owner Hcoll true lp hs1 "t" <> owner Hcoll true lp hs2 "t".
Proof. exact collision_matters. Qed.
Print Assumptions C17_collision_matters.

(* (2) The owner is always one of the peers (any non-empty list, duplicates allowed, any hash order). *)
Theorem C17_owner_in_peers : forall H salt seed0 pcount strict peers hs tid,
  peers <> [] ->
  Permutation hs (partitions H salt seed0 pcount (load_peers sorts_peers peers)) ->
  In (owner H strict (load_peers sorts_peers peers) hs tid) peers.
Proof. exact owner_in_peers. Qed.
Print Assumptions C17_owner_in_peers.

(* (3) Single hop. A cluster: nodes with distinct addresses, each holding a permutation of [peers]
   and its own admissible hash order, one node per peer address. A span of trace [tid] entering at ANY
   node [e] is collected by the canonical owner o (one of the peers): with no forwarding when e is the
   owner, after exactly one forwarding hop (to o) otherwise. *)
Theorem C17_one_hop : forall H salt seed0 pcount strict peers nodes e tid fuel,
  cluster_ok H salt seed0 pcount peers nodes ->
  benign H salt seed0 pcount (load_peers sorts_peers peers) ->
  In e nodes ->
  let o := canonical_owner H salt seed0 pcount strict peers tid in
  In o peers /\
  deliver H strict sorts_peers (S (S fuel)) nodes (self e) tid =
    (if String.eqb o (self e) then [] else [o], Some o).
Proof. exact one_hop. Qed.
Print Assumptions C17_one_hop.

(* (3') the same with one sort function for all nodes and no hash hypothesis *)
Theorem C17_one_hop_same_binary : forall H salt seed0 pcount strict srt peers nodes e tid fuel,
  cluster_ok_fn H salt seed0 pcount srt peers nodes ->
  In e nodes ->
  let o := which_with H salt seed0 pcount strict sorts_peers srt peers tid in
  In o peers /\
  deliver H strict sorts_peers (S (S fuel)) nodes (self e) tid =
    (if String.eqb o (self e) then [] else [o], Some o).
Proof. exact one_hop_fn. Qed.
Print Assumptions C17_one_hop_same_binary.

(* (4) No node forwards a span to itself. *)
Theorem C17_never_forward_to_self : forall H strict nd tid a,
  route H strict sorts_peers nd tid = Forward a -> a <> self nd.
Proof. exact never_forward_to_self. Qed.
Print Assumptions C17_never_forward_to_self.

(* (5) The source constructs the model mirrors are still there (flags regenerated from the repository). *)
Theorem C17_source_shape :
  sorts_peers && peer_order_is_string_lt && sorts_hashes_by_uhash && partition_hash_is_addr_seed &&
  ppp_is_count_div_len_plus_1 && which_returns_peers_bestix && xorb which_strict which_nonstrict &&
  route_forwards_iff_not_mine = true.
Proof. exact source_shape. Qed.
Print Assumptions C17_source_shape.

(* (6) What the owner IS (with the comparison found in the source, [which_strict] = `h > maxHash`): the peer that holds
   a partition whose trace hash H tid uhash is positive and maximal over all partitions, or peers[0] when every trace
   hash is 0. The choice depends on the partitions only through (uhash, address), which is why the order of the peer
   list cannot matter. *)
Theorem C17_owner_is_argmax : forall H tid lp hs,
  (owner H which_strict lp hs tid = nth 0 lp EmptyString /\ Forall (fun p => hval H tid p = 0%N) hs) \/
  (exists p, In p hs /\ owner H which_strict lp hs tid = nth (pix p) lp EmptyString /\ (0 < hval H tid p)%N /\
             Forall (fun q => (hval H tid q <= hval H tid p)%N) hs).
Proof. exact owner_is_argmax. Qed.
Print Assumptions C17_owner_is_argmax.

(* Non-vacuity: a concrete hash, three peers given in two orders plus a duplicate-free cluster of three
   nodes with different views; hypotheses hold, the owner is "n3", the span entering at "n1" makes one hop. *)
Local Open Scope string_scope.
Definition Hex (s : string) (seed : N) : N :=
  ((N.of_nat (String.length s) * 7919 + fold_right (fun a acc => (N_of_ascii a + 31 * acc) mod 1000003) 0 (list_ascii_of_string s)
    + seed * 104729) * 2654435761 mod 4294967291)%N.

Example C17_nonvacuous :
  let P := ["n2"; "n3"; "n1"]%string in
  let Q := ["n3"; "n1"; "n2"]%string in
  let hsOf v := sort_parts (partitions Hex "anything" 7 5 (load_peers sorts_peers v)) in
  let nodes := [ {| self := "n1"; view := P; nhs := hsOf P |};
                 {| self := "n2"; view := Q; nhs := hsOf Q |};
                 {| self := "n3"; view := P; nhs := hsOf P |} ]%string in
  benign_b Hex "anything" 7 5 (load_peers sorts_peers P) = true /\
  length (partitions Hex "anything" 7 5 (load_peers sorts_peers P)) = 6%nat /\
  which Hex "anything" 7 5 true sorts_peers P "t4" = "n3"%string /\
  which Hex "anything" 7 5 true sorts_peers Q "t4" = "n3"%string /\
  deliver Hex true sorts_peers 5 nodes "n1" "t4" = (["n3"%string], Some "n3"%string) /\
  deliver Hex true sorts_peers 5 nodes "n3" "t4" = ([], Some "n3"%string).
Proof. vm_compute. repeat split; reflexivity. Qed.
