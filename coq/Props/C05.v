(* C05 — dry run forwards every span with the would-be decision.
   Only theorem statements closed by [exact]; proofs live in Proofs/DryRun.v.  [dec] / [sdec] are the trace
   sampler and stress relief (arbitrary); [step] / [run] are the forwarding model of Model/Rates.v. *)
From Coq Require Import Permutation.
From Refinery Require Import Lib.Base Gen.GenC04 Model.Rates Model.DryRun Proofs.Rates Proofs.DryRun.

(* Exactly once.  For every history that stays in dry run (reloads may change everything else; stress-relief
   spans are treated below) and every schedule of spans, decisions and late spans: the spans forwarded so
   far together with the spans still buffered are exactly (as multisets) the spans handed to the collector —
   nothing is dropped, nothing is forwarded twice; after a final decision of the buffered traces every
   span has been forwarded. *)
Theorem C05_every_span_forwarded_once :
  forall dec sdec ops s,
  inv5 dec s -> c_dry (cf s) = true -> dry_history ops = true ->
  Permutation (all_sids (snd (run dec sdec s ops)) ++ buffered_sids (fst (run dec sdec s ops)))
              (buffered_sids s ++ span_ids ops).
Proof. exact dry_all_forwarded. Qed.
Print Assumptions C05_every_span_forwarded_once.

(* Marker and rate.  Every span forwarded by a non-stress operation in dry run (decision of the buffered
   traces, late span of a kept or of a dropped trace) carries meta.refinery.dryrun.kept = the trace sampler's
   decision for its trace, a sample rate equal to the client's up to "absent = 0 = 1", and no
   final_sample_rate. *)
Theorem C05_marker_and_rate :
  forall dec sdec s o x,
  inv5 dec s -> c_dry (cf s) = true -> is_stress o = false -> In x (snd (step dec sdec s o)) ->
  exists sp, source s o sp /\
             o_sid x = s_id sp /\ o_dry x = Some (Proofs.Rates.d_keep (dec (s_tid sp))) /\
             maxone (o_rate x) = maxone (s_rate sp) /\ o_final x = 0.
Proof. exact dry_marker_and_rate. Qed.
Print Assumptions C05_marker_and_rate.

(* The invariant used above is preserved along such histories, and holds initially. *)
Theorem C05_invariant_preserved :
  forall dec sdec ops s, inv5 dec s -> c_dry (cf s) = true -> dry_history ops = true ->
  inv5 dec (fst (run dec sdec s ops)) /\ c_dry (cf (fst (run dec sdec s ops))) = true.
Proof. exact run_inv5. Qed.
Print Assumptions C05_invariant_preserved.

(* DryRun is reloadable: the invariant is preserved by EVERY history without stress-relief spans, whatever
   the DryRun value (off, on, toggled by reloads), so the two theorems above hold from the moment a reload
   switches DryRun on: for every prefix [pre] (DryRun off or on), after [Reload c] with c_dry c = true, the
   state satisfies their hypotheses. *)
Theorem C05_invariant_any_history :
  forall dec sdec ops s, inv5 dec s -> forallb (fun o => negb (is_stress o)) ops = true ->
  inv5 dec (fst (run dec sdec s ops)).
Proof. exact run_inv5_any. Qed.
Print Assumptions C05_invariant_any_history.

Theorem C05_invariant_initial : forall dec c, inv5 dec (init c).
Proof. exact inv5_init. Qed.
Print Assumptions C05_invariant_initial.

(* The only spans not forwarded are stress-relief drops: a stress span never enters the buffer, carries no
   dry-run marker, and is withheld exactly when the trace is on record as dropped or, with no record, when
   stress relief decides to drop it. *)
Theorem C05_only_stress_relief_drops :
  forall dec sdec s sp,
  buf (fst (step dec sdec s (Stress sp))) = buf s /\
  (forall x, In x (snd (step dec sdec s (Stress sp))) -> o_sid x = s_id sp /\ o_dry x = None /\ o_stressed x = true) /\
  (snd (step dec sdec s (Stress sp)) = [] <->
     mem_N (s_tid sp) (dropped s) = true \/
     (alookup (s_tid sp) (kept s) = None /\ Proofs.Rates.d_keep (sdec (s_tid sp)) = false)).
Proof. exact stress_ignores_dry_run. Qed.
Print Assumptions C05_only_stress_relief_drops.

(* Non-vacuity: trace 1 would be dropped, trace 2 kept at rate 10; on-time, late-dropped and late-kept spans. *)
Example C05_nonvacuous :
  let dec := fun t : N => if N.eqb t 1 then (10%N, false, "drop"%string) else (10%N, true, "keep"%string) in
  let sdec := fun t : N => (1%N, true, EmptyString) in
  let c0 := {| c_dry := true; c_reason := false; c_spancount := false; c_counts := false; c_hostmeta := false; c_attrs := [] |} in
  let sp i t r := {| s_id := i; s_tid := t; s_rate := r; s_root := false; s_ann := 0 |} in
  let ops := [Span (sp 1 1 0); Span (sp 2 2 5); Decide; Span (sp 3 1 0); Span (sp 4 2 0)]%N in
  dry_history ops = true /\
  map (map (fun o => (o_sid o, o_rate o, o_dry o, o_dryrate o))) (snd (run dec sdec (init c0) ops)) =
  [[]; []; [(2, 5, Some true, Some 50); (1, 1, Some false, Some 10)]; [(3, 0, Some false, None)]; [(4, 1, Some true, Some 10)]]%N.
Proof. vm_compute. split; reflexivity. Qed.

(* Non-vacuity with a live reload: DryRun is off when the spans arrive, a reload switches it on, the decision
   then forwards both traces with the marker and the client's rate. *)
Example C05_nonvacuous_reload :
  let dec := fun t : N => if N.eqb t 1 then (10%N, false, "drop"%string) else (10%N, true, "keep"%string) in
  let sdec := fun t : N => (1%N, true, EmptyString) in
  let c0 := {| c_dry := false; c_reason := false; c_spancount := false; c_counts := false; c_hostmeta := false; c_attrs := [] |} in
  let c1 := {| c_dry := true; c_reason := false; c_spancount := false; c_counts := false; c_hostmeta := false; c_attrs := [] |} in
  let sp i t r := {| s_id := i; s_tid := t; s_rate := r; s_root := false; s_ann := 0 |} in
  map (map (fun o => (o_sid o, o_rate o, o_dry o, o_final o)))
      (snd (run dec sdec (init c0) [Span (sp 1 1 0); Span (sp 2 2 5); Reload c1; Decide]%N)) =
  [[]; []; []; [(2%N, 5%N, Some true, 0%Z); (1%N, 1%N, Some false, 0%Z)]].
Proof. vm_compute. reflexivity. Qed.
