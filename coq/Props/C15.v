(* C15 — stress relief switches with hysteresis on a bounded stress level.
   Only theorem statements closed by [exact]; proofs live in Proofs/Stress.v, Proofs/StressFloat.v.

   srun PT (sinit t0 c0) ops : the trace of recalculations (oldest first) of the executable model of
       collect/stressRelief.go over a history of Recalc(own level) / peer reports / clock advances /
       configuration reloads; every record holds the instant, the configuration in force, the own
       level, the cluster level, the level acted on and whether relief is on afterwards.
   lrun : specification of the level — the latest report of every key, filtered by age when used.
   expected_on past c now lvl : specification of the switch as a function of the observable trace. *)
From Refinery Require Import Lib.Base Model.Stress Proofs.Stress Proofs.StressFloat Gen.GenC15.

(* The source has the modelled shape, reports expire after the 10 s PeerEntryTimeout, and the shipped
   defaults satisfy the documented side condition DeactivationLevel <= ActivationLevel. *)
Theorem C15_source_shape :
  peer_entry_timeout = 10000000000 /\ (default_deactivation_level <= default_activation_level)%N /\
  cluster_expires_after_peer_entry_timeout = true /\ cluster_sums_squares_of_nonzero = true /\
  cluster_is_sqrt_of_mean = true /\ overall_is_max = true /\
  switch_activates_at_activation_level = true /\ switch_pushes_hold_while_at_or_above_deactivation = true /\
  switch_deactivates_below_after_hold = true /\
  mode_switch_arms = [["""never"""; """"""]; ["""monitor"""]; ["""always"""]; ["default"]]%string.
Proof. repeat split; vm_compute; congruence. Qed.
Print Assumptions C15_source_shape.

(* Level, 1: the lazily expiring report map of the code computes, in every history whose clock does
   not run backwards, exactly the cluster level and acted-on level of the specification that keeps
   the latest report of every node and ignores those older than PeerEntryTimeout when it is used. *)
Theorem C15_level_refines_reports : forall PT t0 c ops,
  ops_ok ops = true ->
  map (fun q => (r_cluster q, r_level q)) (srun PT (sinit t0 c) ops) = lrun PT (linit t0) ops.
Proof. exact level_refines_reports. Qed.
Print Assumptions C15_level_refines_reports.

(* Level, 2: that specification's level is max(own, rms of the recent nonzero reports) ... *)
Theorem C15_level_is_max_rms : forall PT sp local,
  snd (lstep PT sp (SRecalc local)) =
    let rs := filter (recent PT (l_now sp)) (aset 0%N (local, l_now sp) (reports sp)) in
    Some (rms rs, N.max (rms rs) local).
Proof. exact lstep_recalc. Qed.
Print Assumptions C15_level_is_max_rms.

(* ... where rms is the integer part of the root mean square of the nonzero levels:
   c^2 * n <= sum of squares < (c+1)^2 * n. *)
Theorem C15_rms_is_floor_root_mean_square : forall m,
  let nz := filter nonzero m in let c := rms m in
  (c * c * count1 nz <= sumsq nz /\ sumsq nz < (c + 1) * (c + 1) * count1 nz)%N.
Proof. exact rms_floor. Qed.
Print Assumptions C15_rms_is_floor_root_mean_square.

(* Level, 3: the Go code computes uint(math.Sqrt(total / float64(n))) in binary64; for up to 4 reports
   with levels 0..100 (every possible total) truncating that float gives the integer model's value. *)
Theorem C15_float_rms_agrees_100 : forall n t,
  (1 <= n <= 4)%N -> (t <= n * 100 * 100)%N -> rms_agrees t n = true.
Proof. exact float_rms_agrees_100. Qed.
Print Assumptions C15_float_rms_agrees_100.

(* Level, 4: if every own level and every peer report in the history is at most B (B = 100 in the
   property), every recalculation's cluster level and acted-on level are at most B (and the level is
   at least the own level and the cluster level). *)
Theorem C15_level_bounded : forall PT B t0 c ops,
  forallb (op_le B) ops = true ->
  Forall (fun q => (r_cluster q <= B /\ r_level q <= B /\ r_local q <= r_level q /\ r_cluster q <= r_level q)%N)
         (srun PT (sinit t0 c) ops).
Proof. exact level_bounded. Qed.
Print Assumptions C15_level_bounded.

(* Switch: in every history (including reloads of mode, levels and duration at any point) every
   recalculation leaves relief exactly as expected_on says, given the recalculations before it. *)
Theorem C15_switch_follows_trace : forall PT t0 c0 ops pre q post,
  srun PT (sinit t0 c0) ops = pre ++ q :: post ->
  r_on q = expected_on (rev pre) (r_cfg q) (r_t q) (r_level q).
Proof. exact switch_follows_trace. Qed.
Print Assumptions C15_switch_follows_trace.

Theorem C15_never_is_off : forall PT t0 c0 ops pre q post,
  srun PT (sinit t0 c0) ops = pre ++ q :: post -> c_mode (r_cfg q) = MNever -> r_on q = false.
Proof. exact run_never. Qed.
Print Assumptions C15_never_is_off.

Theorem C15_always_is_on : forall PT t0 c0 ops pre q post,
  srun PT (sinit t0 c0) ops = pre ++ q :: post -> c_mode (r_cfg q) = MAlways -> r_on q = true.
Proof. exact run_always. Qed.
Print Assumptions C15_always_is_on.

(* monitor mode: on when the level reaches ActivationLevel (documented DeactivationLevel <= ActivationLevel) *)
Theorem C15_monitor_switches_on : forall PT t0 c0 ops pre q post,
  srun PT (sinit t0 c0) ops = pre ++ q :: post ->
  c_mode (r_cfg q) = MMonitor -> (c_deact (r_cfg q) <= c_act (r_cfg q))%N ->
  (c_act (r_cfg q) <= r_level q)%N -> r_on q = true.
Proof. exact run_monitor_on. Qed.
Print Assumptions C15_monitor_switches_on.

(* ... and only then *)
Theorem C15_monitor_on_only_at_activation : forall PT t0 c0 ops pre q post,
  srun PT (sinit t0 c0) ops = pre ++ q :: post ->
  c_mode (r_cfg q) = MMonitor -> on_of (rev pre) = false -> r_on q = true ->
  (c_act (r_cfg q) <= r_level q)%N.
Proof. exact run_on_only_if. Qed.
Print Assumptions C15_monitor_on_only_at_activation.

(* monitor mode: relief goes from on to off only at a recalculation whose level is below
   DeactivationLevel and that comes more than MinimumActivationDuration after the most recent
   recalculation that left relief on (in monitor mode) with the level at or above DeactivationLevel
   (levels and duration as in force at that recalculation). *)
Theorem C15_monitor_off_only_if : forall PT t0 c0 ops pre q post,
  srun PT (sinit t0 c0) ops = pre ++ q :: post ->
  c_mode (r_cfg q) = MMonitor -> on_of (rev pre) = true -> r_on q = false ->
  (r_level q < c_deact (r_cfg q))%N /\
  match last_above (rev pre) with
  | Some p => r_t p + c_mind (r_cfg p) < r_t q
  | None => True
  end.
Proof. exact run_off_only_if. Qed.
Print Assumptions C15_monitor_off_only_if.

(* ... and conversely it stays on while the level is at or above DeactivationLevel or the hold runs *)
Theorem C15_monitor_stays_on : forall PT t0 c0 ops pre q post,
  srun PT (sinit t0 c0) ops = pre ++ q :: post ->
  c_mode (r_cfg q) = MMonitor -> on_of (rev pre) = true ->
  ((c_deact (r_cfg q) <= r_level q)%N \/
   exists p, last_above (rev pre) = Some p /\ r_t q <= r_t p + c_mind (r_cfg p)) ->
  r_on q = true.
Proof. exact run_stays_on. Qed.
Print Assumptions C15_monitor_stays_on.

(* last_above picks the newest earlier recalculation that qualifies *)
Theorem C15_last_above_is_most_recent : forall past q,
  last_above past = Some q ->
  exists newer older, past = newer ++ q :: older /\ held q = true /\ forallb (fun x => negb (held x)) newer = true.
Proof. exact last_above_spec. Qed.
Print Assumptions C15_last_above_is_most_recent.

(* Non-vacuity: monitor mode 90/75/10 s. Own level 95 switches on; 50 one second later stays on
   (hold); still on at exactly 10 s; off just after; a peer at 100 switches on again through the
   cluster level; after the peer's report is older than 10 s the level falls back to the own 0 and, the hold being
   over, relief switches off; a reload to always mode switches it on. *)
Example C15_nonvacuous :
  let c := {| c_mode := MMonitor; c_act := 90; c_deact := 75; c_mind := 10000000000 |} in
  let ops := [SRecalc 95; SAdv 1000000000; SRecalc 50; SAdv 9000000000; SRecalc 50; SAdv 1; SRecalc 50;
              SPeer 1 100; SRecalc 0; SAdv 10000000001; SRecalc 0; SConfig {| c_mode := MAlways; c_act := 90; c_deact := 75; c_mind := 0 |};
              SRecalc 0]%N in
  ops_ok ops = true /\ forallb (op_le 100) ops = true /\
  map (fun q => (r_cluster q, r_level q, r_on q)) (srun peer_entry_timeout (sinit 0 c) ops) =
    [(95, 95, true); (50, 50, true); (50, 50, true); (50, 50, false); (100, 100, true); (0, 0, false); (0, 0, true)]%N.
Proof. vm_compute. repeat split; reflexivity. Qed.
