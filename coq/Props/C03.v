(* C03 — trace decisions happen at the documented time.  Statements only; proofs in
   Proofs/CollectorTime.v.  The worker model is Model/Collector.v (processSpan deadlines,
   TakeExpiredTraces with the priority queue's pops as an oracle, the send-reason ladder). *)
From Refinery Require Import Lib.Base Model.Collector Proofs.CollectorRef Proofs.CollectorTime Proofs.CollectorTicker Gen.GenC01.

(* (a) The deadline.  A trace whose first span arrived at [first] and whose spans arrived at the
   instants of [l] (in order, under config c) has SendBy = the minimum of first + TraceTimeout',
   of arrival + SendDelay' for every root arrival, and of the arrival instant itself for every
   arrival that finds the trace above SpanLimit (act-fast: timeout 0, even if that span is the
   root).  TraceTimeout' / SendDelay' are the configured values or the code's fallbacks when 0. *)
Theorem C03_deadline_formula : forall (c : cfg) (first : Z) (l : list (Z * span)),
  t_sendby (fold_left (arrive c) l (new_trace c first)) = fold_left Z.min (cands c 0 l) (first + eff_tt c).
Proof. exact sendby_formula. Qed.
Print Assumptions C03_deadline_formula.

Theorem C03_deadline_never_raised : forall (c : cfg) (now : Z) (tr : trace) (s : span),
  t_sendby (add_span c now tr s) <= t_sendby tr.
Proof. exact sendby_never_raised. Qed.
Print Assumptions C03_deadline_never_raised.

(* (b) Never early.  In any step the code can take, a trace leaves the buffer only through a tick
   whose instant is at or after the trace's deadline, or through a memory-pressure ejection. *)
Theorem C03_never_early :
  forall (sampler : N -> list span -> bool) (dry : bool) (w : wstate) (o : op) (w' : wstate) (evs : list ev)
         (t : N) (tr : trace),
  step sampler dry w o = Some (w', evs) -> alookup t (w_buf w) = Some tr -> alookup t (w_buf w') = None ->
  (exists now ch, o = OTick now ch /\ In t ch /\ t_sendby tr <= now) \/
  (exists bytes ch, o = OEject bytes ch /\ In t ch).
Proof. exact leaves_only_when_due. Qed.
Print Assumptions C03_never_early.

(* (c) What a tick takes, for EVERY way the priority queue may break ties: the taken traces are
   expired and leave the buffer; each has a deadline no later than every trace that stays; at most
   MaxExpiredTraces are taken (0 = unlimited); and an expired trace stays behind only if the tick
   took its full MaxExpiredTraces budget. *)
Theorem C03_tick_takes_earliest_up_to_max :
  forall (sampler : N -> list span -> bool) (dry : bool) (w : wstate) (now : Z) (ch : list N) (w' : wstate) (evs : list ev),
  step_tick sampler dry w now ch = Some (w', evs) ->
  w_buf w' = remove_all ch (w_buf w) /\
  (forall t, In t ch -> exists tr, alookup t (w_buf w) = Some tr /\ t_sendby tr <= now /\
                                   forall kv, In kv (w_buf w') -> t_sendby tr <= t_sendby (snd kv)) /\
  (0 < c_me (w_cfg w) -> Z.of_nat (length ch) <= c_me (w_cfg w)) /\
  ((0 < c_me (w_cfg w) /\ c_me (w_cfg w) <= Z.of_nat (length ch)) \/
   forall kv, In kv (w_buf w') -> now < t_sendby (snd kv)).
Proof. exact tick_spec. Qed.
Print Assumptions C03_tick_takes_earliest_up_to_max.

(* (d) Decided at the next tick: a buffered trace whose deadline has passed is decided by the tick
   unless MaxExpiredTraces other buffered traces have deadlines no later than its own. *)
Theorem C03_due_trace_decided_at_next_tick :
  forall (sampler : N -> list span -> bool) (dry : bool) (w : wstate) (now : Z) (ch : list N) (w' : wstate)
         (evs : list ev) (t : N) (tr : trace),
  NoDup (akeys (w_buf w)) ->
  step_tick sampler dry w now ch = Some (w', evs) ->
  alookup t (w_buf w) = Some tr -> t_sendby tr <= now ->
  (c_me (w_cfg w) <= 0 \/
   Z.of_nat (length (filter (fun kv => (t_sendby (snd kv) <=? t_sendby tr) && negb (N.eqb (fst kv) t)) (w_buf w)))
     < c_me (w_cfg w)) ->
  In t ch.
Proof. exact tick_decides_due. Qed.
Print Assumptions C03_due_trace_decided_at_next_tick.

(* ... and the next send tick is less than one SendTicker period away: with ticks at t0 + k*SendTicker,
   the first tick at or after a deadline d satisfies d <= tick < d + SendTicker. *)
Theorem C03_next_tick_within_send_ticker : forall t0 st d : Z,
  0 < st -> t0 <= d ->
  exists k, 0 <= k /\ d <= t0 + k * st < d + st /\ forall j, 0 <= j < k -> t0 + j * st < d.
Proof. exact next_tick_within_period. Qed.
Print Assumptions C03_next_tick_within_send_ticker.

(* the NoDup premise holds in every reachable state *)
Theorem C03_reachable_buffers_have_distinct_keys :
  forall (sampler : N -> list span -> bool) (dry : bool) (ops : list op) (w : wstate),
  NoDup (akeys (w_buf w)) -> NoDup (akeys (w_buf (fst (run sampler dry w ops)))).
Proof. exact run_nodup. Qed.
Print Assumptions C03_reachable_buffers_have_distinct_keys.

(* (e) The reported send reason of a trace decided by a tick: got_root if a root span is present,
   else span_limit if SpanLimit > 0 and the span count exceeds it, else expired. *)
Theorem C03_send_reason_ladder :
  forall (sampler : N -> list span -> bool) (dry : bool) (w : wstate) (now : Z) (ch : list N) (w' : wstate)
         (evs : list ev) (t s r : N),
  step_tick sampler dry w now ch = Some (w', evs) -> In (t, s, r) evs ->
  exists tr, alookup t (w_buf w) = Some tr /\ In s (sids tr) /\
    r = (if has_root tr then R_root
         else if (0 <? c_sl (w_cfg w)) && (c_sl (w_cfg w) <? count tr) then R_limit else R_expired).
Proof. exact tick_reason_spec. Qed.
Print Assumptions C03_send_reason_ladder.

(* the source still has the shape the model follows (ticker period = SendTicker, tick = send
   expired at Clock.Now(), MaxExpiredTraces passed to TakeExpiredTraces, pq ordered by SendBy,
   loop bound, stop at first unexpired, SendBy only lowered and re-queued, act-fast on span limit) *)
Example C03_code_shape :
  collect_ticks_every_send_ticker && collect_tick_runs_send_expired_at_now && tick_takes_expired_with_max &&
  take_loop_bound && take_stops_at_first_unexpired && pq_orders_by_earliest_sendby &&
  ps_new_trace_sendby_is_now_plus_timeout && ps_span_limit_acts_fast && ps_sendby_only_lowered_and_requeued = true.
Proof. vm_compute. reflexivity. Qed.

(* Non-vacuity: root after the span limit, root exactly at the timeout, a deadline tie at the
   MaxExpiredTraces cut. *)
Definition ex_sp (t i : N) (root : bool) : span :=
  {| s_id := i; s_tid := t; s_root := root; s_cls := 0; s_size := 10; s_age := 0 |}.
Definition ex_cfg : cfg := {| c_ver := 0; c_tt := 100; c_sd := 10; c_sl := 2; c_me := 1 |}.
Example C03_nonvacuous :
  (* deadline: first + 100, then the third span exceeds SpanLimit 2 at t=7 -> 7; a root at 8 cannot raise it *)
  t_sendby (fold_left (arrive ex_cfg) [(0, ex_sp 1 1 false); (5, ex_sp 1 2 false); (7, ex_sp 1 3 false); (8, ex_sp 1 4 true)]
                      (new_trace ex_cfg 0)) = 7 /\
  (* two traces expire at the same instant, MaxExpiredTraces = 1: the tick takes exactly one of them,
     either one; the reason of a rootless 1-span trace is "expired" *)
  (let ops := [OSpan 0 (ex_sp 1 1 false); OSpan 0 (ex_sp 2 2 false)] in
   let w := fst (run (fun _ _ => true) false (winit ex_cfg) ops) in
   step_tick (fun _ _ => true) false w 100 [1%N] <> None /\ step_tick (fun _ _ => true) false w 100 [2%N] <> None /\
   step_tick (fun _ _ => true) false w 100 [1%N; 2%N] = None /\ step_tick (fun _ _ => true) false w 99 [1%N] = None /\
   option_map snd (step_tick (fun _ _ => true) false w 100 [2%N]) = Some [(2%N, 2%N, R_expired)]).
Proof. vm_compute. repeat split; discriminate. Qed.
