(* C23 - responses reflect what happened to the data.
   Only theorem statements closed by [exact]; proofs live in Proofs/Respond.v.

   [tree_obs r] = observe (handle gen_params r): what a client, the collector and the two transmissions
   observe when the model of the six ingestion entry points - instantiated with the status table, the
   "is this error report followed by return" flags and the OTLP "propagate the lookup error" flags that
   tools/translate extracted from the working tree (Gen/GenC23.v) - handles request [r].
   A request is: endpoint, called through the mux or directly, classic or modern key, ANY combination of
   injected faults (key refused, body unreadable, dataset undecodable, environment lookup failing, body
   unparsable, unsupported content type), ANY list of events of any classes, and ANY script of collector
   admission answers.  The only hypothesis, [ext_ok], says that the status codes husky and grpc-go attach to
   their own errors (handed over by the harness from the libraries' constants, validated on every case by
   Monitor.C23.check) are error codes. *)
From Refinery Require Import Lib.Base Model.Respond Proofs.Respond.

(* Clause 1: an error status for the request as a whole => none of its events was forwarded or buffered. *)
Theorem C23_error_status_no_effects : forall r, ext_ok (r_ext r) = true ->
  is_error (r_ep r) (ob_status (tree_obs r)) = true -> effects (tree_obs r) = [].
Proof. exact tree_error_status_no_effects. Qed.
Print Assumptions C23_error_status_no_effects.

(* Clause 2: a success status => every event of the request was handed to its component (collector, upstream
   or peer transmission) exactly once and in order, and nothing else was: no event is discarded unprocessed. *)
Theorem C23_success_all_processed : forall r, ext_ok (r_ext r) = true ->
  is_error (r_ep r) (ob_status (tree_obs r)) = false ->
  exists outs, replay (req_events r) (ob_adds (tree_obs r)) (ob_up (tree_obs r)) (ob_peer (tree_obs r)) = Some outs /\
               length outs = length (req_events r).
Proof. exact tree_success_all_processed. Qed.
Print Assumptions C23_success_all_processed.

(* Clause 3: an answered batch lists, item by item, the status of what happened to that event ... *)
Theorem C23_batch_item_statuses : forall r, ext_ok (r_ext r) = true -> r_ep r = EpBatch ->
  is_error EpBatch (ob_status (tree_obs r)) = false ->
  exists outs, replay (r_events r) (ob_adds (tree_obs r)) (ob_up (tree_obs r)) (ob_peer (tree_obs r)) = Some outs /\
               length outs = length (r_events r) /\
               ob_docs (tree_obs r) = [DList (map std_status outs)].
Proof. exact tree_batch_item_statuses. Qed.
Print Assumptions C23_batch_item_statuses.

(* ... where 202 is listed exactly for accepted events, 429 exactly for queue-full, 400 exactly for invalid. *)
Theorem C23_status_202_exactly_accepted : forall o, std_status o = 202%N <-> accepted o.
Proof. exact std_status_accepted. Qed.
Print Assumptions C23_status_202_exactly_accepted.
Theorem C23_status_429_exactly_queue_full : forall o, std_status o = 429%N <-> o = ORefused.
Proof. exact std_status_refused. Qed.
Print Assumptions C23_status_429_exactly_queue_full.
Theorem C23_status_400_exactly_invalid : forall o, std_status o = 400%N <-> o = OInvalid.
Proof. exact std_status_invalid. Qed.
Print Assumptions C23_status_400_exactly_invalid.

(* Clause 4: every request receives exactly one status: the status is set at most once (never a second
   WriteHeader, never a header after the body started), the body holds at most one document, and an error
   answer on /1/ is one status write plus exactly one error document. *)
Theorem C23_exactly_one_status : forall r, ext_ok (r_ext r) = true ->
  (ob_hdr_calls (tree_obs r) <= 1)%N /\ (length (ob_docs (tree_obs r)) <= 1)%nat /\
  (is_v1 (r_ep r) = true -> is_error (r_ep r) (ob_status (tree_obs r)) = true ->
   ob_docs (tree_obs r) = [DErr] /\ ob_hdr_calls (tree_obs r) = 1%N).
Proof. exact tree_exactly_one_status. Qed.
Print Assumptions C23_exactly_one_status.

(* The boolean monitor that is run on the implementation's observations never fires on the model's own. *)
Theorem C23_monitor_accepts_model : forall r, ext_ok (r_ext r) = true -> check_obs r (tree_obs r) = [].
Proof. exact tree_monitor_accepts_model. Qed.
Print Assumptions C23_monitor_accepts_model.

(* Queue admission: the k-th span offered to the collector receives the k-th admission answer. *)
Theorem C23_admission_in_order : forall evs a acts outs, event_loop evs a = (acts, outs) ->
  map snd (adds_of acts) = answers (length (adds_of acts)) a.
Proof. exact tree_answers_in_order. Qed.
Print Assumptions C23_admission_in_order.

(* The pinned tree (before repo commit "fix: batch stops after reporting ...") violated clauses 1, 4 and 2: *)
Theorem C23_pinned_batch_refuted :
  let o := observe (handle pinned_params witness_batch) in
  is_error EpBatch (ob_status o) = true /\ effects o = [1; 3; 2]%N /\ length (ob_docs o) = 2%nat.
Proof. exact pinned_batch_refuted. Qed.
Print Assumptions C23_pinned_batch_refuted.
Theorem C23_pinned_otlp_refuted :
  let o := observe (handle pinned_params witness_otlp) in
  is_error EpOtlpTraceHttp (ob_status o) = false /\
  replay (r_events witness_otlp) (ob_adds o) (ob_up o) (ob_peer o) = None /\ effects o = [].
Proof. exact pinned_otlp_refuted. Qed.
Print Assumptions C23_pinned_otlp_refuted.

(* Non-vacuity: a batch of six events of every class with one queue-full answer is answered 200 with the
   prescribed list; the same batch with a failing environment lookup is refused as a whole, untouched. *)
Example C23_nonvacuous :
  let evs := [(1, EvMine); (2, EvEmpty); (3, EvPeer); (4, EvMine); (5, EvNonTrace); (6, EvProbe)]%N in
  let ok := {| r_ep := EpBatch; r_direct := false; r_legacy := false; r_f := no_faults;
               r_events := evs; r_admit := [true; false]; r_ext := ext_std |} in
  let bad := {| r_ep := EpBatch; r_direct := false; r_legacy := false; r_f := env_fault;
                r_events := evs; r_admit := [true; false]; r_ext := ext_std |} in
  ext_ok ext_std = true /\
  tree_obs ok = {| ob_status := 200; ob_hdr_calls := 1; ob_docs := [DList [202; 400; 202; 429; 202; 202]%N];
                   ob_adds := [(1, true); (4, false)]%N; ob_up := [5%N]; ob_peer := [3%N] |} /\
  tree_obs bad = {| ob_status := 400; ob_hdr_calls := 1; ob_docs := [DErr];
                    ob_adds := []; ob_up := []; ob_peer := [] |}.
Proof. vm_compute. repeat split; reflexivity. Qed.
