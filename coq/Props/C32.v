(* C32 — TTL sets and maps agree on membership at every instant.
   Only theorem statements closed by [exact]; proofs live in Proofs/TTL.v. *)
From Refinery Require Import Lib.Base Model.TTL Proofs.TTL.

(* Full statement: for every TTL >= 0, start instant, and history of adds, removals, queries and
   non-negative clock advances, every output of the implementation model (lazy cleanup,
   per-query comparisons exactly as in the Go code) equals the output of the specification in
   which ALL queries are derived from one predicate: "now <= time of most recent add + TTL". *)
Theorem C32_ttl_refines_spec : forall ttl t0 ops,
  0 <= ttl -> ops_ok ops = true -> trun ttl (tinit t0) ops = srun ttl (sinit t0) ops.
Proof. exact ttl_refines_spec. Qed.
Print Assumptions C32_ttl_refines_spec.

(* The specification itself: an entry is present exactly on [add, add+TTL] ... *)
Theorem C32_present_window : forall ttl sp k a v,
  NoDup (akeys (last sp)) -> alookup k (last sp) = Some (a, v) ->
  (alookup k (live_entries ttl sp) = Some (a, v) <-> snow sp <= a + ttl).
Proof. exact spec_present_window. Qed.
Print Assumptions C32_present_window.

(* ... measured from the most recent add ... *)
Theorem C32_most_recent_add : forall ttl sp k v nw,
  let sp1 := fst (sstep ttl sp (Put k v)) in
  alookup k (live_entries ttl {| snow := nw; last := last sp1 |}) =
  if nw <=? snow sp + ttl then Some (snow sp, v) else None.
Proof. exact spec_put_live. Qed.
Print Assumptions C32_most_recent_add.

(* ... and membership test, listing and count agree at every instant. *)
Theorem C32_queries_agree : forall ttl sp k,
  (exists v, snd (sstep ttl sp (Get k)) = OGet (Some v)) <->
  (exists l, snd (sstep ttl sp Keys) = OKeys l /\ In k l).
Proof. exact spec_queries_agree. Qed.
Print Assumptions C32_queries_agree.

Theorem C32_count_is_listing : forall ttl sp,
  exists l, snd (sstep ttl sp Keys) = OKeys l /\ snd (sstep ttl sp Len) = OLen (N.of_nat (length l)).
Proof. exact spec_len_is_keys. Qed.
Print Assumptions C32_count_is_listing.

(* Non-vacuity: a concrete history that queries at the exact expiry instant. *)
Example C32_nonvacuous :
  let ops := [Put 1 7; Advance 10; Get 1; Keys; Len; Advance 1; Get 1; Keys]%N in
  ops_ok ops = true /\
  trun 10 (tinit 0) ops =
    [ONone; ONone; OGet (Some 7%N); OKeys [1%N]; OLen 1; ONone; OGet None; OKeys []].
Proof. vm_compute. split; reflexivity. Qed.
