(* C26 — transmission delivers each event once, to its own destination, within limits.
   Only theorem statements closed by [exact]; proofs live in Proofs/Transmit.v.
   gen_cfg mb b is the model configuration whose constants (1 MB, 5 MB, header slack, retry bound,
   Retry-After bound, ticker divisor) are re-read from transmit/direct_transmit.go on every run. *)
From Refinery Require Import Lib.Base Model.Transmit Proofs.Transmit Model.TransmitCreate Proofs.TransmitCreate.
From Coq Require Import Permutation.

(* For every MaxBatchSize >= 1, BatchTimeout >= 4 ns, every stream of enqueues / clock advances /
   Stop (any destinations, any serialized sizes), every server behaviour stream and every set of
   malformed destinations, the run is defined (the size loop terminates) and:
   - exactly once: the enqueued events are, as a multiset, the events of the outgoing batches plus the
     events dropped as oversize plus the events still pending;
   - every outgoing batch (req_ok) is non-empty, addressed to the destination of each of its events,
     holds only events of at most 1 MB, has a body of at most 5 MB and at most MaxBatchSize events,
     is attempted at most twice, and leaves at an instant t with 4*(t - enqueue instant) < 5*BatchTimeout
     for each of its events (enqueue instants are those of the op list: third clause);
   - only events above 1 MB are dropped;
   - ups - downs of the queued-items gauge equals the number of pending events once every dispatched
     batch has its outcome. *)
Theorem C26_transmission : forall (mb b : Z) (beh : N -> list resp) (bad : N -> bool) (t0 : Z) (ops : list top),
  1 <= mb -> 4 <= b -> ops_ok ops = true ->
  let c := gen_cfg mb b in
  exists r ds, run c beh bad t0 ops = Some r /\
    Permutation (enqueued ops) (concat (map rq_evs (r_reqs r)) ++ r_over r ++ map fst (r_pending r)) /\
    (forall et, In et (dev ds) -> In et (stamps t0 ops)) /\
    Forall (req_ok c ds) (r_reqs r) /\
    Forall (fun e => maxEv c < esize e) (r_over r) /\
    r_ups r - downs (r_cnt r) = Z.of_nat (length (r_pending r)).
Proof. exact c26_run. Qed.
Print Assumptions C26_transmission.

(* Stop sends everything pending: after Stop nothing is pending, every enqueued event is in exactly one
   outgoing batch or was dropped as oversize, and the gauge is back to zero. *)
Theorem C26_stop_flushes : forall (mb b : Z) (beh : N -> list resp) (bad : N -> bool) (t0 : Z) (ops : list top),
  1 <= mb -> 4 <= b -> ops_ok ops = true ->
  exists r, run (gen_cfg mb b) beh bad t0 (ops ++ [Stop]) = Some r /\ r_pending r = [] /\
    Permutation (enqueued ops) (concat (map rq_evs (r_reqs r)) ++ r_over r) /\
    r_ups r - downs (r_cnt r) = 0.
Proof. exact c26_stop. Qed.
Print Assumptions C26_stop_flushes.

(* the limits in the statement are the documented ones, and the source still has the shape the model copies *)
Theorem C26_documented_constants :
  maxBody (gen_cfg 1 4) = 5000000 /\ maxEv (gen_cfg 1 4) = 1000000 /\ ntries (gen_cfg 1 4) = 2%nat /\
  retryLim (gen_cfg 1 4) = 60 * 1000000000 /\ tdiv (gen_cfg 1 4) = 4 /\ gen_shape_ok = true.
Proof. exact c26_documented_constants. Qed.
Print Assumptions C26_documented_constants.

(* a second attempt happens only after a timeout or a 429/503 whose Retry-After sleep is in (0, 60 s) *)
Theorem C26_retry_only_when_asked : forall c rs r0 rest,
  rs = r0 :: rest -> (1 < fst (fst (tries c 2 rs)))%N ->
  r0 = RTimeout \/ exists code sl sts, r0 = RHttp code sl sts /\ (code = 429 \/ code = 503) /\ 0 < sl < retryLim c.
Proof. exact c26_retry_only_when_asked. Qed.
Print Assumptions C26_retry_only_when_asked.

(* EnqueueEvent's lookup-then-create for one new destination, as atomic steps (read-locked lookup; write-locked
   second look and create; append under the batch mutex), any number of goroutines, every schedule: at most one batch
   is ever created and everything appended anywhere is in the batch the map holds (what the ticker and Stop see). *)
Theorem C26_no_orphan_batch : forall (evs : list N) (sched : list nat),
  let s := crun true (cinit evs) sched in
  (length (made s) <= 1)%nat /\ concat (made s) = reachable s.
Proof. exact no_orphan_batch. Qed.
Print Assumptions C26_no_orphan_batch.

(* without the second look under the write lock two goroutines racing on a new destination orphan a batch:
   event 1 sits in a batch the map no longer holds *)
Example C26_create_without_recheck_refuted :
  let s := crun false (cinit [1; 2]%N) [0; 1; 0; 1; 0; 1]%nat in
  all_done s = true /\ made s = [[1%N]; [2%N]] /\ reachable s = [2%N].
Proof. vm_compute. repeat split; reflexivity. Qed.

Example C26_create_with_recheck_nonvacuous :
  let s := crun true (cinit [1; 2; 3]%N) [0; 1; 0; 1; 2; 0; 1; 2; 2]%nat in
  all_done s = true /\ reachable s = [1; 2; 3]%N.
Proof. vm_compute. split; reflexivity. Qed.

(* Non-vacuity: MaxBatchSize 2, BatchTimeout 1000 ns, ticker every 250 ns. e1 leaves by stale dispatch at the
   tick +1000 (age = BatchTimeout), e2 e3 fill a batch at +1250, e4 (1 000 001 bytes) is dropped on Stop,
   e5 leaves on Stop and is retried once after a 429 with Retry-After 1 s; two events pending at the Sync. *)
Example C26_nonvacuous :
  let e (n d : N) (s : Z) := {| eid := n; edest := d; esize := s |} in
  let ops := [Enq (e 1%N 7%N 100); Adv 1250; Enq (e 2%N 7%N 100); Enq (e 3%N 7%N 100); Enq (e 4%N 8%N 1000001);
              Enq (e 5%N 9%N 999999); Sync] in
  let beh := fun k => if N.eqb k 5%N then [RHttp 429 1000000000 []; RHttp 200 0 [202]] else [RHttp 200 0 [202; 202]] in
  ops_ok ops = true /\
  option_map (fun r => (map (fun q => (map eid (rq_evs q), rq_dest q, rq_attempts q, rq_time q)) (r_reqs r),
                        map eid (r_over r), r_sleeps r, r_syncs r, r_ups r - downs (r_cnt r)))
             (run (gen_cfg 2 1000) beh (fun _ => false) 0 (ops ++ [Stop])) =
  Some ([([1%N], 7%N, 1%N, 1000); ([2%N; 3%N], 7%N, 1%N, 1250); ([5%N], 9%N, 2%N, 1250)], [4%N], [1000000000], [2], 0).
Proof. vm_compute. split; reflexivity. Qed.
