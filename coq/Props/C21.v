(* C21 — trace identity and root status follow the ID-field configuration.
   Only theorem statements closed by [exact]; proofs live in Proofs/TraceId.v.

   The subject of the theorems is the model instantiated with what the translator extracted from
   types/payload.go (coq/Gen/GenC21.v): the reserved metadata field table with the expected type of
   every entry, the names of meta.trace_id / meta.signal_type / meta.refinery.root, the "log" signal
   value, the "meta." prefix, and the presence of the configured-order selection in both
   extraction paths.  [gen_is_std] / [gen_structure] stop compiling when any of them changes. *)
From Refinery Require Import Lib.Base Model.TraceId Proofs.TraceId.
From Refinery Require Import Gen.GenC21.
Local Open Scope string_scope.
Local Open Scope list_scope.

Definition gen_consts : list (string * string) :=
  [("MetaSignalType", c_MetaSignalType); ("MetaTraceID", c_MetaTraceID); ("MetaAnnotationType", c_MetaAnnotationType);
   ("MetaRefineryProbe", c_MetaRefineryProbe); ("MetaRefineryRoot", c_MetaRefineryRoot);
   ("MetaRefineryIncomingUserAgent", c_MetaRefineryIncomingUserAgent);
   ("MetaRefineryLocalHostname", c_MetaRefineryLocalHostname); ("MetaStressed", c_MetaStressed);
   ("MetaRefineryReason", c_MetaRefineryReason); ("MetaRefinerySendReason", c_MetaRefinerySendReason);
   ("MetaSpanEventCount", c_MetaSpanEventCount); ("MetaSpanLinkCount", c_MetaSpanLinkCount);
   ("MetaSpanCount", c_MetaSpanCount); ("MetaEventCount", c_MetaEventCount);
   ("MetaRefineryOriginalSampleRate", c_MetaRefineryOriginalSampleRate);
   ("MetaRefineryFinalSampleRate", c_MetaRefineryFinalSampleRate); ("MetaRefinerySampleKey", c_MetaRefinerySampleKey)].

(* one row of the Go map literal  Meta…: stringField(…) | boolField(…) | int64Field(…) *)
Definition gen_row (r : string * string) : option (string * mkind) :=
  match slookup (fst r) gen_consts with
  | None => None
  | Some name =>
      if String.prefix "stringField(" (snd r) then Some (name, MString)
      else if String.prefix "boolField(" (snd r) then Some (name, MBool)
      else if String.prefix "int64Field(" (snd r) then Some (name, MInt)
      else None
  end.
Definition gen_metas : list (option (string * mkind)) := map gen_row metadata_fields_raw.

Definition gen_cfg (tn pn : list string) : idcfg :=
  {| trace_names := tn; parent_names := pn;
     metas := flat_map (fun o => match o with Some e => [e] | None => [] end) gen_metas;
     k_trace_id := c_MetaTraceID; k_signal := c_MetaSignalType; k_root := c_MetaRefineryRoot;
     log_value := log_value_bytes; meta_prefix := meta_prefix_bytes |}.

Lemma gen_is_std : forall tn pn, gen_cfg tn pn = std_cfg tn pn.
Proof. reflexivity. Qed.

Lemma gen_structure :
  forallb (fun o => match o with Some _ => true | None => false end) gen_metas
  && String.eqb log_value_map log_value_bytes
  && bytes_uses_configured_order && bytes_applies_field_id_last && map_uses_configured_order
  && process_event_uses_extracted_id_and_root = true.
Proof. reflexivity. Qed.

(* the documented defaults of IDFields.TraceNames / ParentNames (struct tags of config.IDFieldsConfig),
   which the driver takes as the configured lists when the operator's file sets none *)
Lemma gen_id_field_defaults :
  id_fields_config =
  [("TraceNames", ["TraceNames"; "[""trace.trace_id"",""traceId""]"]);
   ("ParentNames", ["ParentNames"; "[""trace.parent_id"",""parentId""]"])].
Proof. reflexivity. Qed.

Lemma gen_table_ok : forall tn pn, table_ok (gen_cfg tn pn) = true.
Proof. reflexivity. Qed.

(* ---- the implementation model meets the specification, on every ingestion path ----
   For every TraceNames / ParentNames configuration whose names are not reserved metadata names and
   do not overlap, and every event with unique keys (any number of fields, any order, any types)
   that carries no value under Refinery's own root flag and no binary value under a reserved string
   name: *)

(* /1/batch (msgpack and JSON) and OTLP msgpack: fields scanned in wire order *)
Theorem C21_batch_path_meets_spec : forall tn pn fs,
  cfg_ok (gen_cfg tn pn) = true -> ev_ok (gen_cfg tn pn) fs = true ->
  outcome_bytes (gen_cfg tn pn) fs = spec_outcome (gen_cfg tn pn) fs.
Proof. intros tn pn fs Hc He. exact (bytes_path_spec _ fs Hc (gen_table_ok tn pn) He). Qed.
Print Assumptions C21_batch_path_meets_spec.

(* /1/events JSON and OTLP maps: fields visited in Go map iteration order, i.e. in ANY order *)
Theorem C21_map_path_meets_spec : forall tn pn fs,
  cfg_ok (gen_cfg tn pn) = true -> ev_ok (gen_cfg tn pn) fs = true ->
  outcome_map (gen_cfg tn pn) fs = spec_outcome (gen_cfg tn pn) fs.
Proof. intros tn pn fs Hc He. exact (map_path_spec _ fs Hc (gen_table_ok tn pn) He). Qed.
Print Assumptions C21_map_path_meets_spec.

(* independence of field order: any permutation, on either path, and across paths *)
Theorem C21_order_independent : forall tn pn fs fs',
  cfg_ok (gen_cfg tn pn) = true -> ev_ok (gen_cfg tn pn) fs = true -> Permutation.Permutation fs fs' ->
  outcome_bytes (gen_cfg tn pn) fs' = outcome_bytes (gen_cfg tn pn) fs /\
  outcome_map (gen_cfg tn pn) fs' = outcome_map (gen_cfg tn pn) fs /\
  outcome_map (gen_cfg tn pn) fs' = outcome_bytes (gen_cfg tn pn) fs.
Proof. intros tn pn fs fs' Hc He P. exact (order_independent _ fs fs' Hc (gen_table_ok tn pn) He P). Qed.
Print Assumptions C21_order_independent.

(* independence of typing and encoding: two events holding the same strings under the same names
   (whatever the types of all other values: JSON numbers vs msgpack ints, nil, maps, ...) get the
   same outcome on every path *)
Theorem C21_encoding_independent : forall tn pn fs fs',
  cfg_ok (gen_cfg tn pn) = true -> ev_ok (gen_cfg tn pn) fs = true -> ev_ok (gen_cfg tn pn) fs' = true ->
  (forall k, str_at k fs = str_at k fs') ->
  outcome_bytes (gen_cfg tn pn) fs = outcome_bytes (gen_cfg tn pn) fs' /\
  outcome_map (gen_cfg tn pn) fs = outcome_map (gen_cfg tn pn) fs' /\
  outcome_bytes (gen_cfg tn pn) fs = outcome_map (gen_cfg tn pn) fs'.
Proof. intros tn pn fs fs' Hc He He' H. exact (paths_agree _ fs fs' Hc (gen_table_ok tn pn) He He' H). Qed.
Print Assumptions C21_encoding_independent.

(* ---- the specification says what the property says ---- *)
(* in a trace exactly when meta.trace_id or a configured trace-ID field holds a non-empty string *)
Theorem C21_membership : forall c fs,
  is_empty (spec_tid c fs) = false <->
  (is_empty (str_at (k_trace_id c) fs) = false \/
   exists n, In n (trace_names c) /\ is_empty (str_at n fs) = false).
Proof. exact spec_membership. Qed.
Print Assumptions C21_membership.

(* the trace ID is meta.trace_id when that holds a non-empty string ... *)
Theorem C21_meta_trace_id_first : forall c fs,
  is_empty (str_at (k_trace_id c) fs) = false -> spec_tid c fs = str_at (k_trace_id c) fs.
Proof. exact spec_meta_precedence. Qed.
Print Assumptions C21_meta_trace_id_first.

(* ... otherwise the value of the first configured field, in CONFIGURED order, that holds one *)
Theorem C21_first_in_configured_order : forall c fs i n,
  is_empty (str_at (k_trace_id c) fs) = true ->
  nth_error (trace_names c) i = Some n -> is_empty (str_at n fs) = false ->
  (forall j m, (j < i)%nat -> nth_error (trace_names c) j = Some m -> is_empty (str_at m fs) = true) ->
  spec_tid c fs = str_at n fs.
Proof. exact spec_first_configured. Qed.
Print Assumptions C21_first_in_configured_order.

(* root exactly when in a trace, no configured parent-ID field holds a non-empty string, not a log *)
Theorem C21_root : forall c fs,
  spec_root c fs = true <->
  (is_empty (spec_tid c fs) = false /\
   (forall n, In n (parent_names c) -> is_empty (str_at n fs) = true) /\
   String.eqb (str_at (k_signal c) fs) (log_value c) = false).
Proof. exact spec_root_iff. Qed.
Print Assumptions C21_root.

(* ---- the one ingestion path that does not meet the statement (known finding) ----
   /1/events with a msgpack body is decoded loosely (bin -> Go string) before extraction, so a binary
   value in an ID field is taken as a string there and nowhere else.  The faithful model refutes the
   full statement for that path; the statement holds on it for events without binary ID values. *)
Theorem C21_events_msgpack_bin_refuted :
  exists c fs, cfg_ok c = true /\ table_ok c = true /\ ev_ok c fs = true /\
               outcome_bytes c fs = spec_outcome c fs /\
               outcome_loose c fs <> spec_outcome c fs.
Proof. exact loose_bin_refuted. Qed.
Print Assumptions C21_events_msgpack_bin_refuted.

Theorem C21_events_msgpack_partial : forall tn pn fs,
  cfg_ok (gen_cfg tn pn) = true -> ev_ok (gen_cfg tn pn) fs = true -> no_bin_ids (gen_cfg tn pn) fs = true ->
  outcome_loose (gen_cfg tn pn) fs = spec_outcome (gen_cfg tn pn) fs.
Proof. intros tn pn fs Hc He Hb. exact (loose_path_partial _ fs Hc (gen_table_ok tn pn) He Hb). Qed.
Print Assumptions C21_events_msgpack_partial.

(* Non-vacuity: the finding's event (two configured trace-ID fields, the later-configured one first
   on the wire, an empty meta.trace_id in between, a parent field) satisfies the hypotheses and gets
   the configured-first ID on both paths. *)
Example C21_nonvacuous :
  let c := gen_cfg ["trace.trace_id"; "traceId"] ["trace.parent_id"] in
  let fs := [("traceId", VStr "b"); ("meta.trace_id", VStr ""); ("x", VInt);
             ("trace.trace_id", VStr "a"); ("trace.parent_id", VStr "p")] in
  cfg_ok c = true /\ ev_ok c fs = true /\
  outcome_bytes c fs = OSpan "a" false /\ outcome_map c (rev fs) = OSpan "a" false /\
  spec_outcome c fs = OSpan "a" false.
Proof. vm_compute. repeat split; reflexivity. Qed.
