(* C20 — forwarded events carry exactly the client's fields.
   Only theorem statements closed by [exact]; proofs live in Proofs/Payload.v.

   Vocabulary (Model/Payload.v):
     fs            the client's payload: fields (key bytes, msgpack/JSON value AST) in wire order
     pa            ingestion path: /1/batch msgpack, /1/batch JSON, /1/events JSON, /1/events msgpack,
                   metadata-only unmarshalling (OTLP-produced msgpack)
     c             TraceIdFieldNames, ParentIdFieldNames, sampler key fields (any lists)
     ops           what the collector does to a kept span, in any order and number:
                   MemoizeFields(keys) and Set(k, v) (meta.* annotations, configured attributes)
     forward ...   = Some out : the data map that leaves in the batch sent to Honeycomb or to a peer
     reserved k    k is a key of types.metadataFields (table regenerated from the source each run)
     canon widen   the value up to the width chosen on the wire inside ONE msgpack type
                   (int8..uint64 by value, float32/float64 by value); every other type is kept as is
     path_spec     bin -> str on the msgpack /1/events path (finding C20-event-msgpack-bin-becomes-str),
                   identity on every other path *)
From Refinery Require Import Lib.Base Lib.SMap_route2 Model.Payload Proofs.Payload.

(* Full statement, for every payload with unique keys, every configuration, every path and every
   sequence of collector operations. [widen] is Go's exact float32->float64 conversion. *)
Theorem C20_forward_preserves_fields : forall (widen : N -> N) pa c ua fs ops out,
  NoDup (skeys fs) ->
  forward widen pa c ua fs ops = Some out ->
  NoDup (skeys out) /\
  (forall k, reserved k = false -> ~ In k (set_keys ops) ->
      option_map (canon widen) (slookup k out) =
      option_map (fun v => canon widen (path_spec pa v)) (slookup k fs)) /\
  (forall k, In k (skeys out) -> reserved k = true \/ In k (skeys fs) \/ In k (set_keys ops)) /\
  (forall k v, reserved k = false -> last_set k ops = Some v ->
      option_map (canon widen) (slookup k out) = Some (canon widen v)).
Proof. exact forward_preserves. Qed.
Print Assumptions C20_forward_preserves_fields.

(* On every path but the loose msgpack /1/events one the msgpack type is kept exactly. *)
Theorem C20_types_kept_except_loose_path : forall (widen : N -> N) pa c ua fs ops out k,
  pa <> PEventMsgp ->
  NoDup (skeys fs) -> forward widen pa c ua fs ops = Some out ->
  reserved k = false -> ~ In k (set_keys ops) ->
  option_map (canon widen) (slookup k out) = option_map (canon widen) (slookup k fs).
Proof. exact types_kept_except_loose_path. Qed.
Print Assumptions C20_types_kept_except_loose_path.

(* Standard msgpack timestamps survive bit for bit (as (seconds, nanoseconds) of ext -1) on every
   path, memoised or not: the statement that failed before fix dbe32fa. It rests on
   [time_standard = true], a fact recomputed from the source of MarshalMsg / appendMemoizedValue. *)
Theorem C20_timestamps_exact : forall (widen : N -> N) pa c ua fs ops out k s n,
  NoDup (skeys fs) -> forward widen pa c ua fs ops = Some out ->
  reserved k = false -> ~ In k (set_keys ops) ->
  slookup k fs = Some (VTime s n) -> slookup k out = Some (VTime s n).
Proof. exact timestamps_exact. Qed.
Print Assumptions C20_timestamps_exact.

Theorem C20_strings_exact : forall (widen : N -> N) pa c ua fs ops out k s,
  NoDup (skeys fs) -> forward widen pa c ua fs ops = Some out ->
  reserved k = false -> ~ In k (set_keys ops) ->
  slookup k fs = Some (VStr s) -> slookup k out = Some (VStr s).
Proof. exact strings_exact. Qed.
Print Assumptions C20_strings_exact.

(* "msgpack values keep their encoded type" is false on the msgpack /1/events path: a bin value
   leaves as str (the faithful model reproduces it; replayed on the Go code it is the known finding). *)
Theorem C20_event_msgpack_bin_type_refuted :
  exists c ua fs out k s,
    NoDup (skeys fs) /\ reserved k = false /\
    forward (fun b => b) PEventMsgp c ua fs [] = Some out /\
    slookup k fs = Some (VBin s) /\ slookup k out = Some (VStr s).
Proof. exact event_msgpack_bin_refuted. Qed.
Print Assumptions C20_event_msgpack_bin_type_refuted.

(* Non-vacuity: a msgpack batch event with a sampler key field holding a timestamp, a nested map, a
   uint that is re-encoded as a fixint, a reserved name of the wrong type (dropped, as the property
   allows), a trace id, and a collector that memoises another field and sets an attribute. *)
Example C20_nonvacuous :
  let fs := [("name", VTime 1700000000 5); ("trace.trace_id", VStr "t1");
             ("n", VUint 7); ("meta.span_count", VStr "x");
             ("m", VMap [("k", VArr [VTime 1 0; VBin "b"])]); ("raw", VF32 5)]%string in
  let c := {| trace_names := ["trace.trace_id"]; parent_names := []; key_fields := ["name"; "n"] |}%string in
  let ops := [OMemoize ["m"; "absent"]; OSet "env" (VStr "prod"); OSet "meta.span_count" (VInt 3)]%string in
  NoDup (skeys fs) /\
  forward (fun b => b) PBatchMsgp c "ua/1" fs ops =
  Some [("meta.trace_id", VStr "t1"); ("meta.refinery.root", VBool true);
        ("meta.refinery.incoming_user_agent", VStr "ua/1"); ("meta.span_count", VInt 3);
        ("env", VStr "prod"); ("m", VMap [("k", VArr [VTime 1 0; VBin "b"])]);
        ("n", VInt 7); ("name", VTime 1700000000 5);
        ("trace.trace_id", VStr "t1"); ("raw", VF32 5)]%string.
Proof.
  split.
  - repeat constructor; cbn [In skeys map fst]; intros H;
      repeat (destruct H as [H|H]; [discriminate H|]); exact H.
  - vm_compute. reflexivity.
Qed.
