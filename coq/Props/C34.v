(* C34 — usage reports neither lose nor double-count usage.
   Only theorem statements closed by [exact]; proofs live in Proofs/Usage.v.

   urun uinit ops = (final tracker state, outputs) of the executable model of agent/usage_report.go and
   Agent.sendUsageReport over a history of cumulative readings (UAdd) and report attempts (UReport r1 r2,
   r1/r2 = what the OpAMP client answers to the first / the retried SendCustomMessage).
   sent_of outs k  : usage of signal k carried by the reports that were sent successfully
   pending s k     : usage of k still waiting (not yet reported, or reported but not confirmed)
   last_reading    : the latest nonzero cumulative reading = the counter's growth since start *)
From Refinery Require Import Lib.Base Model.Usage Proofs.Usage Gen.GenC34.

Theorem C34_source_shape :
  new_report_folds_unconfirmed_into_last = true /\ add_ignores_zero_reading = true /\
  complete_send_clears_last = true /\ negative_values_refused = true /\
  length send_attempts_in_source = 2%nat /\ length signal_to_metric = 4%nat.
Proof. repeat split; vm_compute; congruence. Qed.
Print Assumptions C34_source_shape.

(* For every history and every signal: sent + pending = growth. Nothing is lost, nothing counted twice. *)
Theorem C34_accounting : forall ops k,
  let '(s, outs) := urun uinit ops in
  sent_of outs k + pending s k = tot (lastUsage s) k.
Proof. exact accounting. Qed.
Print Assumptions C34_accounting.

Theorem C34_growth_is_last_reading : forall ops k,
  tot (lastUsage (fst (urun uinit ops))) k = last_reading ops k 0.
Proof. exact growth_is_last_reading. Qed.
Print Assumptions C34_growth_is_last_reading.

(* right after a report that was sent nothing is pending: all growth so far has been delivered *)
Theorem C34_flushed_after_sent : forall ops r1 r2 p n k,
  snd (ustep (fst (urun uinit ops)) (UReport r1 r2)) = OReport p n true ->
  let s := fst (ustep (fst (urun uinit ops)) (UReport r1 r2)) in
  pending s k = 0.
Proof. exact flushed_after_sent. Qed.
Print Assumptions C34_flushed_after_sent.

(* no report, sent or not, ever carries a negative value *)
Theorem C34_no_negative_usage : forall ops s, Forall payload_nonneg (snd (urun s ops)).
Proof. exact no_negative_usage. Qed.
Print Assumptions C34_no_negative_usage.

(* with counters that never decrease no report is ever refused and pending usage is never negative *)
Theorem C34_monotone_never_refused : forall ops,
  monotone ops [] = true ->
  ~ In OError (snd (urun uinit ops)) /\ forall k, 0 <= pending (fst (urun uinit ops)) k.
Proof.
  exact (fun ops => monotone_never_refused ops uinit []
           (conj (Forall_nil _) (conj (Forall_nil _) (fun k => eq_refl)))).
Qed.
Print Assumptions C34_monotone_never_refused.

(* The pinned code (lastDataPoints := currentDataPoints, dropping the still unconfirmed points of the
   previous report) loses usage when two sends in a row fail: growth 45, delivered 35, nothing pending. *)
Theorem C34_pinned_code_loses_usage :
  let ops := [UAdd 1 10; UReport RErr ROk; UAdd 1 25; UReport RErr ROk; UAdd 1 45; UReport ROk ROk]%N in
  let '(s, outs) := urun_gen false uinit ops in
  sent_of outs 1%N = 35 /\ pending s 1%N = 0 /\ tot (lastUsage s) 1%N = 45.
Proof. exact usage_loss_refuted_orig. Qed.
Print Assumptions C34_pinned_code_loses_usage.

(* Non-vacuity: the same history on the fixed code delivers all 45 (10 + 15 carried over twice). *)
Example C34_nonvacuous :
  let ops := [UAdd 1 10; UReport RErr ROk; UAdd 1 25; UReport RPending RErr; UAdd 1 45; UAdd 2 7; UReport RPending ROk]%N in
  monotone ops [] = true /\
  snd (urun uinit ops) =
    [ONone; OReport [(1%N, 10)] 1 false; ONone; OReport [(1%N, 15); (1%N, 10)] 2 false; ONone; ONone;
     OReport [(2%N, 7); (1%N, 20); (1%N, 25)] 2 true] /\
  sent_of (snd (urun uinit ops)) 1%N = 45 /\ pending (fst (urun uinit ops)) 1%N = 0.
Proof. vm_compute. repeat split; reflexivity. Qed.
