(* C27 — reloads apply exactly the acceptable changes.
   Only theorem statements closed by [exact]; proofs live in Proofs/Reload.v.
   gen_variant is the model variant whose flags (reload mutex present; only a nil config is fatal; reload
   validates with the startup version; unchanged = hash equality) are re-read from config/file_config.go. *)
From Refinery Require Import Lib.Base Model.Reload Proofs.Reload.

(* One reload, whatever the sources hold (unreadable, or content with startup's verdict cacc, warnings or not):
   it applies the content iff the content changed and startup accepts it; then the running configuration is
   that content; otherwise the running configuration is unchanged. *)
Theorem C27_reload_applies_exactly_acceptable_changes : forall cur src,
  let '(c', a) := reload_seq gen_variant cur src in
  (a = true <-> exists c, src = Readable c /\ cacc c = true /\ chash c <> chash cur) /\
  (a = true -> src = Readable c') /\ (a = false -> c' = cur).
Proof. exact c27_sequential. Qed.
Print Assumptions C27_reload_applies_exactly_acceptable_changes.

(* Any number n of reloaders, any listeners (registered once each), any schedule interleaving source
   changes, triggers and the atomic steps of each Reload (lock, read, validate+compare, store, unlock,
   one callback at a time):
   - only contents startup accepts are ever stored, and the running configuration is always the last
     stored content (so a rejected / unreadable / unchanged read leaves it as it was);
   - no change is stored twice: consecutive stored contents (and the first vs. the initial one) differ;
   - no change is lost: a reloader that read content startup accepts releases the reload lock with the
     running configuration equal to what it read;
   - when all reloaders are idle, every listener has been called exactly once per stored change. *)
Theorem C27_overlapping_reloads : forall (n : nat) (c0 : content) (cbs : list N) (ops : list sop),
  NoDup cbs ->
  let s := srun gen_variant cbs (sinit n c0) ops in
  Forall (fun c => cacc c = true) (applied s) /\
  cur s = hd c0 (applied s) /\
  distinct_adj (map chash (applied s ++ [c0])) /\
  (forall t c k, nth t (threads s) Idle = Unlocking (Readable c) k -> cacc c = true -> chash (cur s) = chash c) /\
  (quiescent s = true -> forall cb h, In cb cbs -> noted cb h (notes s) = times_applied h (applied s)).
Proof. exact c27_interleaved. Qed.
Print Assumptions C27_overlapping_reloads.

(* The pinned tree violated both halves (repo fixes 0235e1b, 976556f): the same model with the old flags. *)
Example C27_unserialized_reload_refuted :
  let c0 := {| chash := 1; cacc := true; cwarn := false; cval := 1 |}%N in
  let c1 := {| chash := 2; cacc := true; cwarn := false; cval := 2 |}%N in
  let old := {| v_lock := false; v_warn_ok := true |} in
  let ops := [SetFile (Readable c1); Trigger 0; Trigger 1;
              Step 0; Step 1; Step 0; Step 1; Step 0; Step 1; Step 0; Step 1; Step 0; Step 1; Step 0; Step 1; Step 0; Step 1]%nat in
  let s := srun old [7%N] (sinit 2 c0) ops in
  quiescent s = true /\ map chash (applied s) = [2; 2]%N /\ notes s = [(7, 2); (7, 2)]%N.
Proof. vm_compute. repeat split; reflexivity. Qed.

Example C27_warning_only_reload_refuted :
  let c0 := {| chash := 1; cacc := true; cwarn := false; cval := 1 |}%N in
  let cw := {| chash := 2; cacc := true; cwarn := true; cval := 2 |}%N in
  reload_seq {| v_lock := true; v_warn_ok := false |} c0 (Readable cw) = (c0, false) /\
  reload_seq gen_variant c0 (Readable cw) = (cw, true).
Proof. vm_compute. split; reflexivity. Qed.

(* Non-vacuity: three reloaders race on one change, then a rejected content, then a warning-only one. *)
Example C27_nonvacuous :
  let c0 := {| chash := 1; cacc := true; cwarn := false; cval := 1 |}%N in
  let c1 := {| chash := 2; cacc := true; cwarn := false; cval := 2 |}%N in
  let bad := {| chash := 3; cacc := false; cwarn := false; cval := 0 |}%N in
  let cw := {| chash := 4; cacc := true; cwarn := true; cval := 4 |}%N in
  let run1 := [Trigger 0; Trigger 1; Trigger 2] ++ concat (repeat [Step 0; Step 1; Step 2] 30) in
  let ops := (SetFile (Readable c1) :: run1) ++ (SetFile (Readable bad) :: run1) ++ (SetFile (Readable cw) :: run1) in
  let s := srun gen_variant [7; 8]%N (sinit 3 c0) ops in
  quiescent s = true /\ map chash (applied s) = [4; 2]%N /\ cur s = cw /\
  notes s = [(8, 4); (7, 4); (8, 2); (7, 2)]%N.
Proof. vm_compute. repeat split; reflexivity. Qed.
