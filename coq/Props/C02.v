(* C02 — kept spans are forwarded exactly once, dropped spans never, none lost.
   Statements only; proofs in Proofs/CollectorAbs.v, Proofs/CollectorRef.v, Proofs/CollectorTime.v. *)
From Refinery Require Import Lib.Base Model.Collector Proofs.CollectorAbs Proofs.CollectorRef Proofs.CollectorTime Proofs.CollectorLive Proofs.CollectorSys Gen.GenC01.

(* Exactly once / nothing invented.  For every sampler, dry-run setting, config and EVERY history of
   span arrivals, ticks, ejections, reloads and forgotten decisions (forgetting included: no premise
   on retention here) in which (trace, span id) pairs are unique: the sequence of spans handed to
   the transmission has no duplicates, and every forwarded span was accepted for that trace. *)
Theorem C02_exactly_once_nothing_invented :
  forall (sampler : N -> list span -> bool) (dry : bool) (c : cfg) (ops : list op),
  NoDup (span_keys ops) ->
  NoDup (map proj (concat (snd (run sampler dry (winit c) ops)))) /\
  (forall t s, forwarded (snd (run sampler dry (winit c) ops)) t s -> accepted_by ops t s).
Proof. exact worker_exactly_once. Qed.
Print Assumptions C02_exactly_once_nothing_invented.

(* Kept: every accepted span forwarded; dropped or undecided: none (a forwarded span implies a
   recorded keep decision, or dry run).  Never-forgotten traces. *)
Theorem C02_kept_all_dropped_none :
  forall (sampler : N -> list span -> bool) (dry : bool) (c : cfg) (ops : list op) (t : N),
  ~ In (OForget t) ops ->
  match alookup t (w_dec (fst (run sampler dry (winit c) ops))) with
  | Some k => if k || dry then (forall s, accepted_by ops t s <-> forwarded (snd (run sampler dry (winit c) ops)) t s)
              else (forall s, ~ forwarded (snd (run sampler dry (winit c) ops)) t s)
  | None => forall s, ~ forwarded (snd (run sampler dry (winit c) ops)) t s
  end.
Proof. exact worker_all_or_none. Qed.
Print Assumptions C02_kept_all_dropped_none.

(* No span is lost while running: at every moment an accepted span of a never-forgotten trace is
   still buffered (trace undecided), or its trace is decided, it has left the buffer, and it has
   been forwarded iff the decision is keep (or dry run). *)
Theorem C02_no_span_lost :
  forall (sampler : N -> list span -> bool) (dry : bool) (c : cfg) (ops : list op) (t s : N),
  ~ In (OForget t) ops -> accepted_by ops t s ->
  match alookup t (w_dec (fst (run sampler dry (winit c) ops))) with
  | None => exists tr, alookup t (w_buf (fst (run sampler dry (winit c) ops))) = Some tr /\ In s (sids tr)
  | Some k => alookup t (w_buf (fst (run sampler dry (winit c) ops))) = None /\
              (forwarded (snd (run sampler dry (winit c) ops)) t s <-> k || dry = true)
  end.
Proof. exact worker_no_span_lost. Qed.
Print Assumptions C02_no_span_lost.

(* The same in the product of workers (any worker count, any routing function). *)
Theorem C02_system_kept_all_dropped_none :
  forall (sampler : N -> list span -> bool) (dry : bool) (n : nat) (c : cfg) (wk : N -> nat) (ops : list sop) (t : N),
  routed wk ops -> (wk t < n)%nat -> ~ sys_forgot ops t ->
  let ws := fst (sys_run sampler dry (repeat (winit c) n) ops) in
  let es := snd (sys_run sampler dry (repeat (winit c) n) ops) in
  exists w, nth_error ws (wk t) = Some w /\
  match alookup t (w_dec w) with
  | Some k => if k || dry then (forall s, sys_accepted ops t s <-> forwarded es t s) else (forall s, ~ forwarded es t s)
  | None => forall s, ~ forwarded es t s
  end.
Proof. exact sys_all_or_none. Qed.
Print Assumptions C02_system_kept_all_dropped_none.

(* Exactly once in the product of workers, for ANY worker count and ANY addressing of the ops (no routing
   premise at all): with unique (trace, span id) pairs in the whole history, the sequence of spans handed
   to the transmission by all workers together has no duplicates and contains only accepted spans. *)
Theorem C02_system_exactly_once_nothing_invented :
  forall (sampler : N -> list span -> bool) (dry : bool) (n : nat) (c : cfg) (ops : list sop),
  NoDup (sys_span_keys ops) ->
  NoDup (map proj (concat (snd (sys_run sampler dry (repeat (winit c) n) ops)))) /\
  (forall t s, forwarded (snd (sys_run sampler dry (repeat (winit c) n) ops)) t s -> sys_accepted ops t s).
Proof. exact sys_exactly_once. Qed.
Print Assumptions C02_system_exactly_once_nothing_invented.

(* Eventually decided.  One tick after every deadline removes min(MaxExpiredTraces', |buffer|)
   traces, so k ticks the code can perform (for any tie-breaking of the queue) at instants at or
   after every buffered deadline empty a reachable buffer of at most k * MaxExpiredTraces traces
   (one tick suffices when MaxExpiredTraces = 0 = unlimited): every buffered trace is decided. *)
Theorem C02_eventually_decided :
  forall (sampler : N -> list span -> bool) (dry : bool) (ticks : list (Z * list N)) (w : wstate),
  NoDup (akeys (w_buf w)) ->
  (forall nc, In nc ticks -> forall kv, In kv (w_buf w) -> t_sendby (snd kv) <= fst nc) ->
  (forall nc w0, In nc ticks -> step sampler dry w0 (OTick (fst nc) (snd nc)) <> None) ->
  (c_me (w_cfg w) <= 0 -> ticks <> []) ->
  (0 < c_me (w_cfg w) -> Z.of_nat (length (w_buf w)) <= Z.of_nat (length ticks) * c_me (w_cfg w)) ->
  w_buf (fst (run sampler dry w (map (fun nc => OTick (fst nc) (snd nc)) ticks))) = [].
Proof. exact late_ticks_drain. Qed.
Print Assumptions C02_eventually_decided.

(* ... and with arbitrary other traffic in between, a due trace is decided by the very next tick
   unless MaxExpiredTraces earlier-or-equal deadlines are ahead of it (earliest deadline first). *)
Theorem C02_due_trace_decided :
  forall (sampler : N -> list span -> bool) (dry : bool) (w : wstate) (now : Z) (ch : list N) (w' : wstate)
         (evs : list ev) (t : N) (tr : trace),
  NoDup (akeys (w_buf w)) ->
  step_tick sampler dry w now ch = Some (w', evs) ->
  alookup t (w_buf w) = Some tr -> t_sendby tr <= now ->
  (c_me (w_cfg w) <= 0 \/
   Z.of_nat (length (filter (fun kv => (t_sendby (snd kv) <=? t_sendby tr) && negb (N.eqb (fst kv) t)) (w_buf w)))
     < c_me (w_cfg w)) ->
  In t ch.
Proof. exact tick_decides_due. Qed.
Print Assumptions C02_due_trace_decided.

(* Eventually decided, under arbitrary interleaved traffic.  Follow a buffered trace t whose deadline d
   has passed.  Whatever happens next — spans of any trace arriving (after d), ejections, reloads (to
   non-negative timeouts and MaxExpiredTraces = 0 or >= m), forgotten decisions, in any order — as soon
   as the history contains more than ahead/m send ticks (at instants >= d), where ahead counts the other
   buffered traces with deadline <= d, some prefix of it has decided t.  (No later arrival can get
   ahead of t: every deadline written after instant d is later than d.) *)
Theorem C02_eventually_decided_interleaved :
  forall (sampler : N -> list span -> bool) (dry : bool) (t : N) (d m : Z) (ops : list op) (w : wstate),
  0 < m ->
  NoDup (akeys (w_buf w)) -> cfg_nonneg (w_cfg w) -> me_ok m (w_cfg w) -> waiting t d w ->
  Forall (op_after d m) ops -> all_valid sampler dry w ops ->
  Z.of_nat (ahead t d (w_buf w)) < m * n_ticks ops ->
  exists k, alookup t (w_buf (fst (run sampler dry w (firstn k ops)))) = None.
Proof. exact due_trace_decided_interleaved. Qed.
Print Assumptions C02_eventually_decided_interleaved.

Example C02_code_shape :
  md_records_decision && tick_takes_expired_with_max && collect_tick_runs_send_expired_at_now &&
  collect_send_early_branch && take_loop_bound = true.
Proof. vm_compute. reflexivity. Qed.

(* No loss between the decision and the transmission (source facts; see Proofs/CollectorRef.v): every decide
   site sends what it decided, `send` enqueues with a plain blocking channel send and returns early only for
   already-sent or dropped traces, `sendTraces` consumes the queue until it is closed. *)
Theorem C02_decided_traces_cannot_be_discarded_in_source : send_path_lossless = true.
Proof. exact send_path_lossless_holds. Qed.
Print Assumptions C02_decided_traces_cannot_be_discarded_in_source.

(* Non-vacuity: a kept trace with a late span, a dropped trace with a late span, an ejection during
   a backlog, unique span ids; outputs have no duplicates and the buffer drains. *)
Definition ex_sampler (ver : N) (spans : list span) : bool := negb (existsb (fun s => N.eqb (s_cls s) 1) spans).
Definition ex_sp (t i : N) (root : bool) (cls : N) : span :=
  {| s_id := i; s_tid := t; s_root := root; s_cls := cls; s_size := 10; s_age := 0 |}.
Definition ex_cfg : cfg := {| c_ver := 0; c_tt := 100; c_sd := 10; c_sl := 0; c_me := 1 |}.
Definition ex_ops : list op :=
  [ OSpan 0 (ex_sp 1 1 false 0); OSpan 0 (ex_sp 2 2 false 1); OSpan 0 (ex_sp 3 3 false 0);
    OTick 100 [1%N]; OSpan 101 (ex_sp 1 4 false 0); OEject 0 [2%N]; OSpan 102 (ex_sp 2 5 true 0);
    OTick 103 [3%N]; OTick 104 [] ].
Example C02_nonvacuous :
  (exists pf : NoDup (span_keys ex_ops), True) /\
  map proj (concat (snd (run ex_sampler false (winit ex_cfg) ex_ops))) = [(1, 1); (1, 4); (3, 3)]%N /\
  w_buf (fst (run ex_sampler false (winit ex_cfg) ex_ops)) = [].
Proof.
  split; [|vm_compute; split; reflexivity].
  assert (H : NoDup (span_keys ex_ops)); [|exists H; exact I].
  vm_compute. repeat constructor; cbn; intros H; repeat (destruct H as [H|H]; [discriminate|]); exact H.
Qed.
