(* C16 — stress-relief decisions are deterministic, remembered, and delivered intact.
   Only theorem statements closed by [exact]; proofs live in Proofs/StressRoute.v.

   The machine [hrun own keep_rule alias] is the reference-aware model of one node (events are heap cells,
   transmissions queue references, destination and payload are read at send time).  The theorems are about the
   instance [alias = negb GenC16.probe_is_copy], i.e. about the code as the translator finds it: if the copy of the
   probe disappears from route/route.go these proofs no longer type-check.
   [own] (the sharder) and [keep_rule] (wyhash(traceID, hashSeed) <= MaxUint64/SamplingRate) are arbitrary functions. *)
From Refinery Require Import Lib.Base Model.StressRoute Proofs.StressRoute Proofs.StressRouteMore Gen.GenC16.
From Coq Require Import Sorting.Permutation.

(* (1) Decisions, memory, and delivery, for EVERY schedule of span arrivals (owned and not owned traces), stress
   switching on and off, and upstream / peer batch dispatches at any points, followed by a final dispatch:
   - the multiset of events received by Honeycomb is exactly [spec_up]: one event per span whose trace was first
     seen under stress and kept by the rule (marked stressed), and one per later span of such a trace that this
     node's collector handles after relief ended (late), each with its own trace, key, dataset, host Honeycomb,
     and NOT marked as a probe;
   - the owning peer receives exactly [spec_pr]: one probe per kept stressed span of a trace it owns, and the plain
     forwards of unstressed times;
   - the drop / buffer outcomes are exactly [spec_ev]: under stress a span is dropped iff the rule says so (never
     buffered); after relief a span of a trace decided under stress follows that decision (never buffered),
     unless this node already holds that trace in its buffer because it FIRST saw it while not stressed
     (such a trace is not "first seen during stress": its spans keep joining the buffered trace). *)
Theorem C16_decided_remembered_delivered : forall own keep_rule ops,
  let outs := snd (hrun own keep_rule (negb probe_is_copy) hinit (ops ++ [FlushUp; FlushPeer])) in
  Permutation (all_posted true outs) (spec_up own keep_rule false [] [] ops) /\
  Permutation (all_posted false outs) (spec_pr own keep_rule false [] [] ops) /\
  events outs = spec_ev own keep_rule false [] [] ops.
Proof. exact delivered_exactly. Qed.
Print Assumptions C16_decided_remembered_delivered.

(* (2) "exactly once": the specification lists every span at most once when span ids are distinct. *)
Theorem C16_exactly_once : forall own keep_rule ops st seen buf,
  NoDup (arr_sids ops) -> NoDup (map p_sid (spec_up own keep_rule st seen buf ops)).
Proof. exact spec_up_nodup. Qed.
Print Assumptions C16_exactly_once.

(* (3) Every request the upstream transmission ever sends (at any dispatch point of any schedule) is addressed to
   the Honeycomb API (host 0) and every event in it is not a probe, still carries host Honeycomb, and has the
   request's key and dataset: no node forwards a probe to Honeycomb, and the probe does not affect destination,
   key or dataset of the kept span. *)
Theorem C16_upstream_requests_intact : forall own keep_rule ops o,
  In o (snd (hrun own keep_rule (negb probe_is_copy) hinit ops)) -> post_ok o.
Proof. exact upstream_posts_intact. Qed.
Print Assumptions C16_upstream_requests_intact.

(* (3') What the specification lists contain (so, by (1), what actually arrives): every event for Honeycomb is not a
   probe, addressed to Honeycomb, and marked stressed (decided under stress) or late (remembered decision), never
   both; every event for the owning peer is addressed to the owner of its trace and is either a stressed probe or a
   plain unmarked forward; hence the owner's collector, which discards probes on receipt, only gets plain forwards. *)
Theorem C16_honeycomb_events_shape : forall own keep_rule ops st seen buf,
  Forall up_shape (spec_up own keep_rule st seen buf ops).
Proof. exact spec_up_shape. Qed.
Print Assumptions C16_honeycomb_events_shape.

Theorem C16_owner_receives_probes_and_forwards : forall own keep_rule ops st seen buf,
  Forall (pr_shape own) (spec_pr own keep_rule st seen buf ops).
Proof. exact spec_pr_shape. Qed.
Print Assumptions C16_owner_receives_probes_and_forwards.

Theorem C16_owner_collects_only_forwards : forall own keep_rule ops st seen buf p,
  In p (spec_pr own keep_rule st seen buf ops) -> p_probe p = false -> p_stressed p = false /\ p_late p = false.
Proof. exact owner_collects_only_forwards. Qed.
Print Assumptions C16_owner_collects_only_forwards.

(* (4) The finding, on the model of the tree BEFORE the fix (the probe is the queued cell itself): trace 1 is
   owned by peer 1, trace 2 by this node, both kept under stress.  The upstream batch is posted to the PEER
   (host 1), span 10 is serialized as a probe with the peer's address, and span 11 — whose trace this node owns —
   is marked as a probe too; with the copy the same schedule delivers both spans intact to Honeycomb. *)
Theorem C16_alias_refuted :
  snd (hrun wit_own wit_rule true hinit wit_ops) =
    [ Post true 1 7 3 [ mkPay 10 1 7 3 1 true true false; mkPay 11 2 7 3 0 true true false ];
      Post false 1 7 3 [ mkPay 10 1 7 3 1 true true false ] ] /\
  snd (hrun wit_own wit_rule false hinit wit_ops) =
    [ Post true 0 7 3 [ mkPay 10 1 7 3 0 false true false; mkPay 11 2 7 3 0 false true false ];
      Post false 1 7 3 [ mkPay 10 1 7 3 1 true true false ] ].
Proof. exact alias_refuted. Qed.
Print Assumptions C16_alias_refuted.

(* (5) The source constructs the model mirrors (flags regenerated from the repository). *)
Theorem C16_source_shape :
  probe_is_copy && probe_marked_in_process_event && probe_discarded_on_receipt && forward_overwrites_apihost &&
  rule_is_hash_le_bound && rate_le_1_keeps_all && bound_is_max_div_rate && kept_span_marked_stressed &&
  stress_decision_recorded && batch_destination_read_at_send_time && batch_key_computed_at_enqueue = true.
Proof. exact source_shape_c16. Qed.
Print Assumptions C16_source_shape.

(* Non-vacuity: a schedule with a kept owned trace, a kept foreign trace, a dropped trace, relief ending, late
   spans of all three, and a span of an unknown trace; the specification is non-trivial on it. *)
Definition ex_own (tid : N) : N := if N.eqb tid 2 then 1%N else 0%N.
Definition ex_rule (tid : N) : bool := negb (N.eqb tid 3).
Definition ex_ops : list op :=
  [Stress true; Arr 10 1 7 3; Arr 11 2 7 3; Arr 12 3 7 3; Arr 13 1 8 3; FlushUp; Stress false;
   Arr 14 1 7 3; Arr 15 2 7 3; Arr 16 3 7 3; Arr 17 4 7 3].
Example C16_nonvacuous :
  NoDup (arr_sids ex_ops) /\
  map p_sid (spec_up ex_own ex_rule false [] [] ex_ops) = [10; 11; 13; 14]%N /\
  map p_sid (spec_pr ex_own ex_rule false [] [] ex_ops) = [11; 15]%N /\
  spec_ev ex_own ex_rule false [] [] ex_ops = [Dropped 12; Dropped 16; Buffered 17]%N /\
  length (snd (hrun ex_own ex_rule (negb probe_is_copy) hinit (ex_ops ++ [FlushUp; FlushPeer]))) = 7%nat.
Proof.
  split; [repeat constructor; cbn; intuition discriminate|]. vm_compute. repeat split; reflexivity.
Qed.
