(* C38 — config converter preserves valid v1 settings   (PARTIAL: see below)
   Only theorem statements closed by [exact]; proofs live in Proofs/Convert.v.
   Claimed here: the table-driven relocation of v1 settings to their v2 place; per setting, the converter's
   write-or-leave-out policy by valuetype composed with the v2 loader's zero-is-unset policy; the rules conversion
   for sections with integer parameters, field lists and RulesBasedSampler rule trees (as opaque ordered rule
   texts). NOT covered by theorems: the text of the value transforms themselves (memory size and duration
   rendering, float formatting are compared end to end only), maps (v2-only), the v1 Logger -> Logger.Type value
   renaming (known finding), the helm conversion; "passes v2 validation" is established by running the real
   validator, not by a theorem. *)
From Refinery Require Import Lib.Base Gen.GenC38 Model.Convert Proofs.Convert.
Local Open Scope string_scope.

(* For every table with distinct v2 paths and every v1 file: a v1 setting named by the table is found at its v2
   location with the same value (and a setting the v1 file does not set is not set in v2 either). *)
Theorem C38_config_setting_preserved_partial : forall tbl c k p,
  NoDup (map snd tbl) -> In (k, p) tbl -> slookup p (convert_cfg tbl c) = slookup k c.
Proof. exact convert_cfg_preserves. Qed.
Print Assumptions C38_config_setting_preserved_partial.

(* the table generated from config/metadata/configMeta.yaml has distinct v2 paths, and the converter source still
   has the shape the model copies (renamed keys, convertible sampler types, default sampler type, v1 files go
   through the template) *)
Theorem C38_generated_table_ok : NoDup (map snd gen_table) /\ gen_shape_ok = true.
Proof. exact (conj gen_table_v2_paths_distinct gen_shape). Qed.
Print Assumptions C38_generated_table_ok.

(* Rules: for every v1 rules file (top level + any sections with distinct names): the top level becomes
   __default__; every section with a Sampler key becomes the destination of the same name; a section without a
   Sampler key produces no destination (v1 itself ignored such sections and used the default sampler). *)
Theorem C38_rules_sections_preserved_partial : forall dflt ds,
  NoDup (map se_name ds) -> ~ In "__default__" (map se_name ds) ->
  find_section "__default__" (convert_rules dflt ds) = Some (conv_section "__default__" dflt) /\
  (forall s, In s ds -> has_sampler s = true ->
     find_section (se_name s) (convert_rules dflt ds) = Some (conv_section (se_name s) s)) /\
  (forall s, In s ds -> has_sampler s = false -> find_section (se_name s) (convert_rules dflt ds) = None).
Proof. exact convert_rules_spec. Qed.
Print Assumptions C38_rules_sections_preserved_partial.

(* ... and within a section the sampler type, the field list and every parameter are kept; ClearFrequencySec n
   becomes ClearFrequency n s and AdjustmentInterval n becomes n s (durations in ns) *)
Theorem C38_rules_parameters_preserved_partial : forall name s,
  se_type (conv_section name s) = (if String.eqb (se_type s) "" then "DeterministicSampler" else se_type s) /\
  se_fields (conv_section name s) = se_fields s /\
  se_rules (conv_section name s) = map conv_rule (se_rules s) /\
  (forall k v, In (k, v) (se_params s) -> k <> "ClearFrequencySec" -> k <> "AdjustmentInterval" ->
     In (k, v) (se_params (conv_section name s))) /\
  (forall v, In ("ClearFrequencySec", v) (se_params s) -> In ("ClearFrequency", (v * second)%Z) (se_params (conv_section name s))) /\
  (forall v, In ("AdjustmentInterval", v) (se_params s) -> In ("AdjustmentInterval", (v * second)%Z) (se_params (conv_section name s))).
Proof. exact conv_section_spec. Qed.
Print Assumptions C38_rules_parameters_preserved_partial.

(* a sampler nested in a rule of a RulesBasedSampler keeps its type and parameters under the same fix-ups
   (nested ClearFrequencySec n becomes ClearFrequency n s, nested numeric AdjustmentInterval n becomes n s) *)
Theorem C38_nested_sampler_preserved_partial : forall r,
  ru_text (conv_rule r) = ru_text r /\ ru_sub_type (conv_rule r) = ru_sub_type r /\
  (forall k v, In (k, v) (ru_sub_params r) -> k <> "ClearFrequencySec" -> k <> "AdjustmentInterval" ->
     In (k, v) (ru_sub_params (conv_rule r))) /\
  (forall v, In ("ClearFrequencySec", v) (ru_sub_params r) -> In ("ClearFrequency", (v * second)%Z) (ru_sub_params (conv_rule r))) /\
  (forall v, In ("AdjustmentInterval", v) (ru_sub_params r) -> In ("AdjustmentInterval", (v * second)%Z) (ru_sub_params (conv_rule r))).
Proof. exact conv_rule_spec. Qed.
Print Assumptions C38_nested_sampler_preserved_partial.

(* One setting through converter and loader (valuetype policy of tools/convert/helpers.go, zero-is-unset policy
   of the v2 loader): the effective v2 value is the v1 value, or the v1 value is a zero that the v2 field cannot
   hold (non-pointer field: the v2 default applies), or the converter left it out (then the v2 default applies). *)
Theorem C38_setting_value_cases_partial : forall s,
  loaded s = si_v1 s \/
  (emits s = true /\ zero_text (si_v1 s) = true /\ si_ptr s = false /\ loaded s = si_sdefault s) \/
  (emits s = false /\ loaded s = si_sdefault s).
Proof. exact loaded_cases. Qed.
Print Assumptions C38_setting_value_cases_partial.

(* explicit false / zero is not lost where v2 can hold it; non-zero written values are kept; a nondefault setting
   is only left out when it prints like the documented default *)
Theorem C38_explicit_zero_kept_partial : forall s,
  si_vt s = "nondefault" -> si_text s <> si_mdefault s -> si_ptr s = true -> loaded s = si_v1 s.
Proof. exact explicit_zero_kept. Qed.
Print Assumptions C38_explicit_zero_kept_partial.

Theorem C38_written_nonzero_kept_partial : forall s, emits s = true -> zero_text (si_v1 s) = false -> loaded s = si_v1 s.
Proof. exact written_nonzero_kept. Qed.
Print Assumptions C38_written_nonzero_kept_partial.

Theorem C38_nondefault_left_out_only_at_default_partial : forall s,
  si_vt s = "nondefault" -> emits s = false -> si_text s = si_mdefault s.
Proof. exact nondefault_left_out. Qed.
Print Assumptions C38_nondefault_left_out_only_at_default_partial.

(* Non-vacuity *)
Example C38_nonvacuous :
  let d := {| se_name := ""; se_type := "DynamicSampler"; se_params := [("SampleRate", 10%Z); ("ClearFrequencySec", 45%Z)]; se_fields := ["a"]; se_rules := [] |} in
  let s1 := {| se_name := "ds1"; se_type := "EMADynamicSampler"; se_params := [("GoalSampleRate", 5%Z); ("AdjustmentInterval", 15%Z)]; se_fields := ["b"; "c"]; se_rules := [] |} in
  let s2 := {| se_name := "ds2"; se_type := ""; se_params := [("SampleRate", 7%Z)]; se_fields := []; se_rules := [] |} in
  map (fun s => (se_name s, se_type s, se_params s)) (convert_rules d [s1; s2]) =
    [("__default__", "DynamicSampler", [("SampleRate", 10%Z); ("ClearFrequency", 45000000000%Z)]);
     ("ds1", "EMADynamicSampler", [("GoalSampleRate", 5%Z); ("AdjustmentInterval", 15000000000%Z)])] /\
  slookup "GRPCServerParameters.ListenAddr" (convert_cfg gen_table [("GRPCListenAddr", "0.0.0.0:4317"); ("PrometheusMetrics.MetricsListenAddr", "localhost:2112")]) = Some "0.0.0.0:4317".
Proof. vm_compute. split; reflexivity. Qed.
