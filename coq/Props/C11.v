(* C11 — dynamic sample keys depend only on the trace's distinct field values.
   Only theorem statements closed by [exact]; proofs live in Proofs/TraceKey.v.
   Strings are lists of code points; [build fields uselen t] is traceKey.build of the source
   (returns key and count); [vals f t] are the rendered values field f takes over the spans. *)
From Refinery Require Import Lib.Base Model.TraceKey Proofs.TraceKey.
From Refinery Require Gen.GenC11.
From Coq Require Import Permutation.

(* the translator found the constructs the model follows (delimiters, cap logic, type switch,
   root fields rendered like per-span values, whole floats as integers, span count, both sorts,
   and the floor/keep shape in all five samplers) *)
Theorem C11_source_shape :
  GenC11.key_delims = [GenC11.gen_bs [226; 128; 162]%N; ","%string] /\
  GenC11.root_prefix = "root."%string /\
  GenC11.cap_breaks_outer = true /\ GenC11.cap_counts_before_store = true /\
  GenC11.cap_is_max_key_length = true /\
  GenC11.first_value_always_written = true /\
  GenC11.root_uses_same_rendering = true /\ GenC11.float_whole_as_int = true /\
  GenC11.add_uses_append_value = true /\ GenC11.len_is_span_count = true /\
  GenC11.fields_sorted = true /\ GenC11.values_sorted = true /\
  GenC11.shape_dynamic = true /\ GenC11.shape_emadynamic = true /\ GenC11.shape_emathroughput = true /\
  GenC11.shape_windowedthroughput = true /\ GenC11.shape_totalthroughput = true.
Proof. exact gen_c11_ok. Qed.
Print Assumptions C11_source_shape.

(* The key (and count) is determined by: the SET of rendered values of each non-root field,
   the root span's values of the root. fields, and the span count when UseTraceLength is set —
   for every field list and every pair of traces with fewer than maxKeyLength distinct values.
   (Stated for every initial prevStr, hence for the source before and after the fix.) *)
Theorem C11_key_determined : forall ip fields uselen t t',
  let nf := fst (prepare fields) in let rf := snd (prepare fields) in
  (total_distinct nf t < MAXK)%N ->
  (forall f, In f nf -> forall x, In x (vals f t) <-> In x (vals f t')) ->
  root_view rf t = root_view rf t' ->
  (uselen = true -> length (t_spans t) = length (t_spans t')) ->
  build_gen ip fields uselen t = build_gen ip fields uselen t'.
Proof. exact build_determined. Qed.
Print Assumptions C11_key_determined.

(* reordering spans *)
Theorem C11_key_perm : forall fields uselen t t',
  (total_distinct (fst (prepare fields)) t < MAXK)%N ->
  Permutation (t_spans t) (t_spans t') -> t_root t = t_root t' ->
  build fields uselen t = build fields uselen t'.
Proof. exact (build_perm init_prev). Qed.
Print Assumptions C11_key_perm.

(* duplicating spans (any span list with the same set of spans); UseTraceLength off, because the
   span count is part of the key otherwise *)
Theorem C11_key_dup : forall fields t t',
  (total_distinct (fst (prepare fields)) t < MAXK)%N ->
  (forall s, In s (t_spans t) <-> In s (t_spans t')) -> t_root t = t_root t' ->
  build fields false t = build fields false t'.
Proof. exact (build_dup init_prev). Qed.
Print Assumptions C11_key_dup.

(* Separation, for the source as it is now (first value always written): all non-root fields
   present in both traces, values free of '•' and ',', fewer than maxKeyLength distinct values:
   equal keys force equal value sets; i.e. a value one trace has and the other lacks gives
   different keys. *)
Theorem C11_key_separates : forall fields uselen uselen' t t',
  let nf := fst (prepare fields) in
  (total_distinct nf t < MAXK)%N -> (total_distinct nf t' < MAXK)%N ->
  all_present nf t -> all_present nf t' -> all_dfree nf t -> all_dfree nf t' ->
  fst (build fields uselen t) = fst (build fields uselen' t') ->
  forall f, In f nf -> forall x, In x (vals f t) <-> In x (vals f t').
Proof. exact build_separates_fixed. Qed.
Print Assumptions C11_key_separates.

Theorem C11_distinct_sets_distinct_keys : forall fields uselen t t' f x,
  let nf := fst (prepare fields) in
  (total_distinct nf t < MAXK)%N -> (total_distinct nf t' < MAXK)%N ->
  all_present nf t -> all_present nf t' -> all_dfree nf t -> all_dfree nf t' ->
  In f nf -> In x (vals f t) -> ~ In x (vals f t') ->
  fst (build fields uselen t) <> fst (build fields uselen t').
Proof. exact build_distinct_sets_distinct_keys. Qed.
Print Assumptions C11_distinct_sets_distinct_keys.

(* … and the same for the root.-prefixed fields: with both root spans carrying every root field
   and values free of ',', equal keys force equal root values *)
Theorem C11_key_separates_root : forall fields uselen uselen' t t' rs rs',
  let nf := fst (prepare fields) in let rf := snd (prepare fields) in
  (total_distinct nf t < MAXK)%N -> (total_distinct nf t' < MAXK)%N ->
  all_present nf t -> all_present nf t' -> all_dfree nf t -> all_dfree nf t' ->
  t_root t = Some rs -> t_root t' = Some rs' -> root_ok rf rs -> root_ok rf rs' ->
  fst (build fields uselen t) = fst (build fields uselen' t') ->
  forall f, In f rf -> option_map render_root (sp_get f rs) = option_map render_root (sp_get f rs').
Proof. exact build_separates_root_fixed. Qed.
Print Assumptions C11_key_separates_root.

(* The pinned tree started the de-dup with prevStr = "": value sets {"", "a"} and {"a"} collide.
   (Finding C11-empty-string-swallowed; fixed in the repository, the fixed builder separates them.) *)
Theorem C11_legacy_prevstr_refuted :
  fst (build_gen (Some []) [u "f"] false legacy_t1) = fst (build_gen (Some []) [u "f"] false legacy_t2) /\
  In [] (vals (u "f") legacy_t1) /\ ~ In [] (vals (u "f") legacy_t2) /\
  fst (build_gen None [u "f"] false legacy_t1) <> fst (build_gen None [u "f"] false legacy_t2).
Proof. exact legacy_collision. Qed.
Print Assumptions C11_legacy_prevstr_refuted.

(* sampler: the rate is at least 1 whatever the dynsampler returns, it is the dynsampler's rate
   when that is >= 1, and of the [rate] possible draws of rand.Intn(rate) exactly one keeps *)
Theorem C11_rate_at_least_1 : forall d, 1 <= rate_floor d.
Proof. exact rate_floor_ge_1. Qed.
Print Assumptions C11_rate_at_least_1.

Theorem C11_rate_is_dynsampler_rate : forall d, 1 <= d < 18446744073709551616 -> rate_floor d = d.
Proof. exact rate_floor_id. Qed.
Print Assumptions C11_rate_is_dynsampler_rate.

Theorem C11_keep_one_draw_in_rate : forall r, (1 <= r)%N ->
  N.peano_rect (fun _ => N) 0%N (fun k acc => if keep_of (Z.of_N k) then (acc + 1)%N else acc) r = 1%N.
Proof. exact keep_count. Qed.
Print Assumptions C11_keep_one_draw_in_rate.

(* Non-vacuity: the repository's own test vector, a permutation with a duplicate, a root field,
   and the empty-string pair now separated. *)
Example C11_nonvacuous :
  let sp1 : span := [(u "http.status_code", VInt 200); (u "request.path", VStr (u "/{slug}/home"));
                     (u "app.team.id", VFloat false 2 0 (u "2")); (u "important_field", VBool true)] in
  let t := {| t_spans := [sp1]; t_root := None |} in
  let fields := [u "http.status_code"; u "request.path"; u "app.team.id"; u "important_field"] in
  build fields true t =
    (u "2" ++ [BUL; COMMA] ++ u "200" ++ [BUL; COMMA] ++ u "true" ++ [BUL; COMMA] ++ u "/{slug}/home" ++ [BUL; COMMA] ++ u "1", 5%N) /\
  (total_distinct (fst (prepare fields)) t < MAXK)%N /\
  let a : span := [(u "f", VInt 404)] in let b : span := [(u "f", VInt 200); (u "service_name", VStr (u "x"))] in
  build [u "f"; u "root.service_name"] false {| t_spans := [a; b; a]; t_root := Some b |} =
  build [u "f"; u "root.service_name"] false {| t_spans := [b; a]; t_root := Some b |} /\
  fst (build [u "f"; u "root.service_name"] false {| t_spans := [b; a]; t_root := Some b |}) =
    u "200" ++ [BUL] ++ u "404" ++ [BUL; COMMA] ++ u "x" ++ [COMMA] /\
  fst (build [u "f"] false legacy_t1) <> fst (build [u "f"] false legacy_t2).
Proof. vm_compute. repeat split; try reflexivity; discriminate. Qed.
