(* C12 — sampler state is shared across workers and isolated between definitions.
   Only theorem statements closed by [exact]; proofs live in Proofs/Registry.v.
   [flog finit ops] is the log (generation, registry key, instance id) of every dynsampler
   creation request in a history of creations (any worker, any order, top-level or downstream),
   ClearDynsamplers and membership changes. *)
From Refinery Require Import Lib.Base Lib.Strs_samp Model.Registry Proofs.Registry.
From Refinery Require Gen.GenC12.
From Coq Require Import Permutation.

(* the translator found: the key is built from the scope marker, the quoted prefix, the type, the
   WHOLE configuration (FieldList cleared) and the quoted sorted field list, in all five arms;
   the registry looks up before creating; Clear empties it; the worker-local cache and its reload;
   and the exact field lists of the five configuration structs (a new tuning parameter changes
   [param_names] and must be covered by the key, which it is because the key takes the struct) *)
Theorem C12_source_shape :
  GenC12.key_format_whole = true /\ GenC12.key_format_legacy = false /\
  length GenC12.key_calls_pass_level_and_prefix = 5%nat /\
  GenC12.registry_lookup_or_create = true /\ GenC12.clear_empties_registry = true /\
  GenC12.downstream_prefix_shape = true /\ GenC12.downstream_marked = true /\
  GenC12.toplevel_marked = true /\ GenC12.worker_cache_shape = true /\
  GenC12.worker_reload_clears_cache = true /\
  GenC12.reload_clear_before_signal = true /\ GenC12.reload_signal_before_clear = false /\
  param_names 3 = ["SampleRate"; "ClearFrequency"; "MaxKeys"; "UseTraceLength"]%string /\
  param_names 4 = ["GoalSampleRate"; "AdjustmentInterval"; "Weight"; "AgeOutValue"; "BurstMultiple";
                   "BurstDetectionDelay"; "MaxKeys"; "UseTraceLength"]%string /\
  param_names 5 = ["GoalThroughputPerSec"; "UseClusterSize"; "InitialSampleRate"; "AdjustmentInterval";
                   "Weight"; "AgeOutValue"; "BurstMultiple"; "BurstDetectionDelay"; "MaxKeys";
                   "UseTraceLength"]%string /\
  param_names 6 = ["UpdateFrequency"; "LookbackFrequency"; "GoalThroughputPerSec"; "UseClusterSize";
                   "MaxKeys"; "UseTraceLength"]%string /\
  param_names 7 = ["GoalThroughputPerSec"; "UseClusterSize"; "ClearFrequency"; "MaxKeys";
                   "UseTraceLength"]%string.
Proof. exact gen_c12_ok. Qed.
Print Assumptions C12_source_shape.

(* All histories: two creation requests got the same instance exactly when they were made in the
   same registry generation with the same key.  The worker does not occur in the statement:
   whichever worker asks, in whatever order, the answer is the same. *)
Theorem C12_shared_iff_same_key : forall ops e1 e2,
  In e1 (flog finit ops) -> In e2 (flog finit ops) ->
  (e_id e1 = e_id e2 <-> e_gen e1 = e_gen e2 /\ e_key e1 = e_key e2).
Proof. exact shared_iff_same_key. Qed.
Print Assumptions C12_shared_iff_same_key.

(* and the key of the source as it is now is equal exactly for: same level (top-level / downstream),
   same environment or dataset name, same sampler type, every configuration parameter equal, and
   the same fields (in any order) *)
Theorem C12_same_key_iff_identical : forall sc1 n1 d1 sc2 n2 d2,
  key_of sc1 n1 d1 = key_of sc2 n2 d2 <->
  sc1 = sc2 /\ n1 = n2 /\ dd_type d1 = dd_type d2 /\ dd_params d1 = dd_params d2 /\
  Permutation (dd_fields d1) (dd_fields d2).
Proof. exact key_of_eq_iff. Qed.
Print Assumptions C12_same_key_iff_identical.

(* a worker decides with the sampler it cached until it handles its own reload signal *)
Theorem C12_worker_cache_stable : forall ops s w name ids,
  cfind w name (w_cache s) = Some ids -> no_worker_reload w ops ->
  cfind w name (w_cache (wstate_after s ops)) = Some ids.
Proof. exact worker_cache_stable. Qed.
Print Assumptions C12_worker_cache_stable.

(* a second request for the same sampler key under the same rules (another worker, or the same one
   after its reload) gets exactly the same instances, rule by rule *)
Theorem C12_second_request_same_instances : forall s c name,
  snd (get_sampler (fst (get_sampler s c name)) c name) = snd (get_sampler s c name).
Proof. exact get_sampler_idempotent. Qed.
Print Assumptions C12_second_request_same_instances.

(* Worker-count independence: within one registry generation (no reload in between), a worker
   that has to ask the factory gets exactly the instances the first asker got — whichever worker,
   whatever other lookups and worker reload signals happened meanwhile.  Together with
   C12_worker_cache_stable: all workers that have processed the latest reload decide with the
   same rate-tracking state for a given sampler key. *)
Theorem C12_workers_agree : forall s w1 w2 name ops,
  cfind w1 name (w_cache s) = None -> no_reload ops ->
  let s1 := fst (wstep s (WGet w1 name)) in
  let s2 := wstate_after s1 ops in
  cfind w2 name (w_cache s2) = None ->
  snd (wstep s2 (WGet w2 name)) = snd (wstep s (WGet w1 name)).
Proof. exact workers_agree. Qed.
Print Assumptions C12_workers_agree.

(* The collector's reload handler, in the order found in the source (ClearDynsamplers, then the
   reload signal to every worker — extracted from collect.go reloadConfigs): whatever the workers do
   between the handler's two steps and afterwards, any two workers that have run their reload branch
   and then need the sampler for a key get the same instances.  The proof computes the extracted
   order; with the steps swapped in the source it no longer compiles. *)
Theorem C12_after_reload_workers_agree : forall s c early mid1 mid2 w1 w2 name,
  no_reload early -> no_reload mid1 -> no_reload mid2 ->
  let s0 := wstate_after s (real_reload_schedule c early mid1) in
  let sA := fst (wstep s0 (WWorkerReload w1)) in
  let r1 := wstep sA (WGet w1 name) in
  let sB := fst (wstep (wstate_after (fst r1) mid2) (WWorkerReload w2)) in
  snd (wstep sB (WGet w2 name)) = snd r1.
Proof. exact real_reload_workers_agree. Qed.
Print Assumptions C12_after_reload_workers_agree.

(* With the order swapped (signals first, ClearDynsamplers last) the statement is false: a worker
   that runs its reload branch and re-creates its sampler between the two steps obtains the old
   generation's instance and keeps it (last two outputs: worker 0 on instance 0, worker 1 on
   instance 1), while the same worker activity under the real order ends with both on instance 1. *)
Theorem C12_signal_before_clear_refuted :
  let out := wrun {| w_f := finit; w_cfg := swap_cfg; w_cache := [] |} swap_history in
  nth 7 out [] = [Some 0%N] /\ nth 8 out [] = [Some 1%N] /\
  let ok := wrun {| w_f := finit; w_cfg := swap_cfg; w_cache := [] |}
                 ([WGet 0 (u "prod"); WGet 1 (u "prod")] ++
                  reload_schedule true swap_cfg [WGet 0 (u "prod")]
                                  [WWorkerReload 0; WGet 0 (u "prod"); WWorkerReload 1; WGet 1 (u "prod")] ++
                  [WGet 0 (u "prod"); WGet 1 (u "prod")]) in
  nth 8 ok [] = [Some 1%N] /\ nth 9 ok [] = [Some 1%N].
Proof. exact signal_first_refuted. Qed.
Print Assumptions C12_signal_before_clear_refuted.

(* The pinned tree's key ("%s:%s:%d:%v" of prefix, type, one rate, sorted fields) was not
   injective: definitions differing in MaxKeys / UseTraceLength, field lists ["a b"] vs ["a";"b"],
   and the top-level name "rules:prod:" vs the downstream samplers of "prod" collide; the key of the
   fixed source separates all three.  (Finding C12-key-ignores-tuning-parameters, fixed.) *)
Theorem C12_legacy_key_refuted :
  let d1 := {| dd_type := 3; dd_params := [10; 0; 500; 0]; dd_fields := [u "a"] |} in
  let d2 := {| dd_type := 3; dd_params := [10; 0; 7; 1]; dd_fields := [u "a"] |} in
  let d3 := {| dd_type := 3; dd_params := [10; 0; 500; 0]; dd_fields := [u "a b"] |} in
  let d4 := {| dd_type := 3; dd_params := [10; 0; 500; 0]; dd_fields := [u "a"; u "b"] |} in
  key_legacy Down (u "prod") d1 = key_legacy Down (u "prod") d2 /\ dd_params d1 <> dd_params d2 /\
  key_legacy Top (u "prod") d3 = key_legacy Top (u "prod") d4 /\
  key_legacy Top (u "rules:prod:") d1 = key_legacy Down (u "prod") d1 /\
  key_whole Down (u "prod") d1 <> key_whole Down (u "prod") d2 /\
  key_whole Top (u "prod") d3 <> key_whole Top (u "prod") d4 /\
  key_whole Top (u "rules:prod:") d1 <> key_whole Down (u "prod") d1.
Proof. exact legacy_key_collides. Qed.
Print Assumptions C12_legacy_key_refuted.

(* Non-vacuity: three workers, two environments, a rules sampler with two identical and one
   different downstream definition, a reload in the middle *)
Example C12_nonvacuous :
  let d := {| dd_type := 3; dd_params := [10; 0; 500; 0]; dd_fields := [u "a"; u "b"] |} in
  let d' := {| dd_type := 3; dd_params := [10; 0; 7; 0]; dd_fields := [u "b"; u "a"] |} in
  let dperm := {| dd_type := 3; dd_params := [10; 0; 500; 0]; dd_fields := [u "b"; u "a"] |} in
  let cfg : econfig := [(u "prod", ERules [Some d; Some d'; None; Some dperm]); (u "dev", EDyn d);
                        (u "__default__", EDet)] in
  wrun {| w_f := finit; w_cfg := cfg; w_cache := [] |}
       [WGet 0 (u "prod"); WGet 1 (u "prod"); WGet 2 (u "dev"); WGet 0 (u "other");
        WReload cfg; WGet 1 (u "prod"); WWorkerReload 1; WGet 1 (u "prod"); WGet 2 (u "prod")] =
  [[Some 0; Some 1; None; Some 0]%N; [Some 0; Some 1; None; Some 0]%N; [Some 2%N]; [];
   []; [Some 0; Some 1; None; Some 0]%N; []; [Some 3; Some 4; None; Some 3]%N; [Some 3; Some 4; None; Some 3]%N].
Proof. vm_compute. reflexivity. Qed.
