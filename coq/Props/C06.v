(* C06 — forwarded spans are decorated as configured, including after reload.
   Only theorem statements closed by [exact]; proofs live in Proofs/Decorate.v.  [step] / [run] are the
   forwarding model of Model/Rates.v ([Reload c] = the configuration changes to c and reloadConfigs runs). *)
From Refinery Require Import Lib.Base Gen.GenC04 Model.Rates Model.Decorate Proofs.Rates Proofs.Decorate.

(* The configuration in force: after ANY history the model's current configuration is the one of the last
   reload (the initial one if none), and the host-metadata switch follows it - AddHostMetadataToTrace
   included (true because reloadConfigs re-evaluates it, read from the source: host_reloaded). *)
Theorem C06_config_in_force :
  forall dec sdec c0 ops,
  cf (fst (run dec sdec (init c0) ops)) = last_cfg c0 ops /\
  host_cur (fst (run dec sdec (init c0) ops)) = c_hostmeta (last_cfg c0 ops).
Proof. exact config_in_force. Qed.
Print Assumptions C06_config_in_force.

(* Every span forwarded by any operation (on time, late, stress relief) carries the additional attributes
   of the configuration in force, the hostname iff host metadata is on, and no reason when
   AddRuleReasonToTrace is off. *)
Theorem C06_forwarded_decoration :
  forall dec sdec s o x, In x (snd (step dec sdec s o)) ->
  o_attrs x = c_attrs (cf s) /\ o_host x = host_cur s /\ (c_reason (cf s) = false -> o_reason x = EmptyString).
Proof. exact forwarded_decoration. Qed.
Print Assumptions C06_forwarded_decoration.

(* On-time spans carry the sampler's reason when reasons are on; an on-time ROOT carries the counts of its
   trace as buffered at the decision (AddCountsToRoot: spans / events / span events / links;
   AddSpanCountToRoot alone: span_count = all descendants), non-roots carry none. *)
Theorem C06_ontime_reason_and_counts :
  forall dec sdec s x, In x (snd (step dec sdec s Decide)) ->
  o_stressed x = false /\
  exists tid tr sp, In (tid, tr) (buf s) /\ In sp (t_spans tr) /\ o_sid x = s_id sp /\
    o_reason x = (if c_reason (cf s) then Proofs.Rates.d_reason (dec tid) else EmptyString) /\
    counts_of x = (if s_root sp then expected_root (cf s) (cnt4 (t_spans tr)) else (0, 0, 0, 0)%N).
Proof. exact ontime_reason_and_counts. Qed.
Print Assumptions C06_ontime_reason_and_counts.

(* The decision record of a kept trace starts with exactly those counts and that reason ... *)
Theorem C06_record_counts_at_decision :
  forall dec s tid tr, Proofs.Rates.d_keep (dec tid) = true ->
  exists r, alookup tid (kept (fst (decide_one dec s tid tr))) = Some r /\ rec4 r = cnt4 (t_spans tr) /\
            r_reason r = Proofs.Rates.d_reason (dec tid).
Proof. exact record_counts_at_decision. Qed.
Print Assumptions C06_record_counts_at_decision.

(* ... every late span is counted into it once, by annotation type; a late root carries the counts
   including itself (= what had been received when it arrived) and the recorded reason marked as late. *)
Theorem C06_late_span_counted :
  forall dec sdec s sp x,
  In x (snd (step dec sdec s (Span sp))) -> mem_N (s_tid sp) (dropped s) = false ->
  exists r, alookup (s_tid sp) (kept s) = Some r /\
    alookup (s_tid sp) (kept (fst (step dec sdec s (Span sp)))) = Some (rec_count (s_ann sp) r) /\
    o_reason x = late_reason (cf s) (r_reason r) /\
    counts_of x = (if s_root sp then expected_root (cf s) (rec4 (rec_count (s_ann sp) r)) else (0, 0, 0, 0)%N).
Proof. exact late_span_counted. Qed.
Print Assumptions C06_late_span_counted.

Theorem C06_count_adds_exactly_one :
  forall a r, r_desc (rec_count a r) = (r_desc r + 1)%N /\
  (r_sev (rec_count a r) + r_link (rec_count a r) + r_span (rec_count a r) = r_sev r + r_link r + r_span r + 1)%N.
Proof. exact rec_count_adds_one. Qed.
Print Assumptions C06_count_adds_exactly_one.

(* Not machine-checked here (labelled partial in notes/C06.md): the composition of the three count lemmas
   over a whole history into "record counts = every span received for the trace so far"; the observation-only
   monitor (Monitor/C06.v) checks exactly that on the implementation. *)

(* Non-vacuity: host metadata and attributes switched on by a reload between the on-time and the late root. *)
Example C06_nonvacuous :
  let dec := fun t : N => (2%N, true, "r"%string) in
  let sdec := fun t : N => (1%N, true, EmptyString) in
  let c0 := {| c_dry := false; c_reason := true; c_spancount := false; c_counts := true; c_hostmeta := false; c_attrs := [] |} in
  let c1 := {| c_dry := false; c_reason := true; c_spancount := false; c_counts := true; c_hostmeta := true; c_attrs := [(1, 2)]%N |} in
  let sp i root a := {| s_id := i; s_tid := 5; s_rate := 0; s_root := root; s_ann := a |} in
  map (map (fun o => (o_sid o, o_host o, o_attrs o, o_reason o, counts_of o)))
      (snd (run dec sdec (init c0) [Span (sp 1 false 1); Span (sp 2 true 0); Decide; Reload c1; Span (sp 3 true 2)]%N)) =
  [[]; [];
   [(1, false, [], "r", (0, 0, 0, 0)); (2, false, [], "r", (1, 2, 1, 0))]; [];
   [(3, true, [(1, 2)], "r - late arriving span", (1, 3, 1, 1))]]%N%string.
Proof. vm_compute. reflexivity. Qed.
