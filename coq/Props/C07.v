(* C07 — memory-pressure ejection decides traces rather than discarding them.
   Statements only; proofs in Proofs/CollectorTime.v.  sort.Slice is an ideal unstable sort: the
   order in which the loop visited the traces is an oracle [ch], the theorems hold for every order the
   code could have produced (every resolution of impact ties). *)
From Refinery Require Import Lib.Base Model.Collector Proofs.CollectorRef Proofs.CollectorTime Gen.GenC01.

(* checkAlloc: ejection is triggered iff MaxAlloc <> 0 and heap >= MaxAlloc; every worker is asked
   to release share = floor((heap - MaxAlloc) / workers) bytes. *)
Theorem C07_trigger : forall alloc maxalloc : Z,
  alloc_triggers alloc maxalloc = true <-> maxalloc <> 0 /\ maxalloc <= alloc.
Proof. exact alloc_triggers_spec. Qed.
Print Assumptions C07_trigger.

Theorem C07_share : forall alloc maxalloc n : Z,
  0 < n -> maxalloc <= alloc ->
  0 <= alloc_share alloc maxalloc n /\
  n * alloc_share alloc maxalloc n <= alloc - maxalloc < n * (alloc_share alloc maxalloc n + 1).
Proof. exact alloc_share_spec. Qed.
Print Assumptions C07_share.

(* sendTracesEarly(bytes).  In every ejection the code can perform: the ejected traces [l] are taken
   from the buffer and leave it; each is at least as heavy (estimated impact) as every trace that
   stays; the loop stops only when the buffer is empty or the released DataSize exceeds the share,
   and (for a non-negative share) not later: the DataSize released before the last ejected trace did
   not exceed it; a non-empty buffer gives up at least one trace; traces not ejected are untouched. *)
Theorem C07_eject_heaviest_first_until_share :
  forall (sampler : N -> list span -> bool) (dry : bool) (w : wstate) (bytes : Z) (ch : list N) (w' : wstate) (evs : list ev),
  step_eject sampler dry w bytes ch = Some (w', evs) ->
  exists l, map fst l = ch /\
  w_buf w' = remove_all ch (w_buf w) /\
  (forall t tr, In (t, tr) l -> alookup t (w_buf w) = Some tr /\
      forall kv, In kv (w_buf w') ->
        trace_impact (eject_tt (w_cfg w)) (snd kv) <= trace_impact (eject_tt (w_cfg w)) tr) /\
  (w_buf w' = [] \/ bytes < sum_sizes l) /\
  (0 <= bytes -> l = [] \/ sum_sizes (removelast l) <= bytes) /\
  (w_buf w <> [] -> ch <> []) /\
  (forall t, ~ In t ch -> alookup t (w_buf w') = alookup t (w_buf w)).
Proof. exact eject_spec. Qed.
Print Assumptions C07_eject_heaviest_first_until_share.

(* Decided exactly as if timed out: deciding a list of traces with the ejection reason or with the
   tick's reason ladder gives the same state (same sampler calls on the same spans, same decision
   records, traces removed) and the same forwarded spans; only the reason differs ... *)
Theorem C07_decided_like_a_timeout :
  forall (sampler : N -> list span -> bool) (dry : bool) (w : wstate) (rf1 rf2 : trace -> N) (l : list (N * trace)),
  fst (decide_list sampler dry w rf1 l) = fst (decide_list sampler dry w rf2 l) /\
  map proj (snd (decide_list sampler dry w rf1 l)) = map proj (snd (decide_list sampler dry w rf2 l)).
Proof. exact eject_decides_like_tick. Qed.
Print Assumptions C07_decided_like_a_timeout.

(* ... and the reason reported for every span forwarded by an ejection is ejected_memsize. *)
Theorem C07_reason_is_ejected_memsize :
  forall (sampler : N -> list span -> bool) (dry : bool) (w : wstate) (bytes : Z) (ch : list N) (w' : wstate)
         (evs : list ev) (t s r : N),
  step_eject sampler dry w bytes ch = Some (w', evs) -> In (t, s, r) evs -> r = R_eject /\ In t ch.
Proof. exact eject_reason_spec. Qed.
Print Assumptions C07_reason_is_ejected_memsize.

(* No span of an ejected trace is lost: ejection is a sequence of Decide steps of the abstract
   machine, so C02_no_span_lost / C01_single_decision cover histories with ejections at any point
   (Props/C01.v, Props/C02.v quantify over op lists containing OEject). *)

Example C07_code_shape :
  eject_sorts_heaviest_first && eject_stop_rule && alloc_trigger_rule && alloc_share_rule && span_impact_formula &&
  collect_send_early_branch && md_records_decision = true.
Proof. vm_compute. reflexivity. Qed.
Example C07_constants : cache_impact_factor = 4 /\ eject_trace_timeout_fallback = trace_timeout_fallback.
Proof. vm_compute. split; reflexivity. Qed.

(* Non-vacuity: three traces of sizes 30 / 20 / 10 (ages give impacts 30 / 40 / 10); share 45. *)
Definition ex_sp (t i : N) (size age : Z) : span :=
  {| s_id := i; s_tid := t; s_root := false; s_cls := 0; s_size := size; s_age := age |}.
Definition ex_cfg : cfg := {| c_ver := 0; c_tt := 100; c_sd := 10; c_sl := 0; c_me := 0 |}.
Definition ex_w : wstate :=
  fst (run (fun _ _ => true) false (winit ex_cfg)
           [OSpan 0 (ex_sp 1 1 30 0); OSpan 0 (ex_sp 2 2 20 30); OSpan 0 (ex_sp 3 3 10 0)]).
Example C07_nonvacuous :
  option_map snd (step_eject (fun _ _ => true) false ex_w 45 [2%N; 1%N]) = Some [(2, 2, R_eject); (1, 1, R_eject)]%N /\
  option_map (fun r => akeys (w_buf (fst r))) (step_eject (fun _ _ => true) false ex_w 45 [2%N; 1%N]) = Some [3%N] /\
  step_eject (fun _ _ => true) false ex_w 45 [1%N; 2%N] = None /\       (* not heaviest first *)
  step_eject (fun _ _ => true) false ex_w 45 [2%N] = None /\            (* stopped too early *)
  step_eject (fun _ _ => true) false ex_w 45 [2%N; 1%N; 3%N] = None.    (* went on too long *)
Proof. vm_compute. repeat split; reflexivity. Qed.
