(* C36 — graceful shutdown drains buffered traces and stops cleanly   (PARTIAL, known finding).
   Collector part: InMemCollector.Stop / CollectorWorker.collect as modelled in Model/Shutdown.v.
   Transmission part: DirectTransmission.Stop's flush as modelled in Model/Transmit.v (family txcfg),
   theorems at the end of this file.  Not covered by any theorem (runtime behaviour, observed by the
   driver only): goroutines left behind, panics, hangs, the startstop ordering of cmd/refinery. *)
From Refinery Require Import Lib.Base Model.Collector Model.Shutdown Proofs.CollectorRef Proofs.CollectorTime Proofs.Shutdown Gen.GenC36.
From Refinery Require Model.Transmit Proofs.Transmit Proofs.ShutdownTx.

(* The faithful model violates the statement: the pinned Stop never visits the trace buffers, so a
   trace buffered at shutdown is neither decided nor forwarded although the sampler keeps it.
   Witness (replayed on the Go code by corpus/C36/stop-with-buffered-trace.json): one span, then Stop. *)
Definition wit_span : span := {| s_id := 7; s_tid := 1; s_root := true; s_cls := 0; s_size := 10; s_age := 0 |}.
Definition wit_cfg : cfg := {| c_ver := 0; c_tt := 100; c_sd := 10; c_sl := 0; c_me := 0 |}.
Theorem C36_shutdown_drain_refuted :
  exists (sampler : N -> list span -> bool) (c : cfg) (ops : list op) (t s : N),
    accepted_by ops t s /\ sampler (c_ver c) [wit_span] = true /\
    let r := run_then_stop sampler false stop_pinned (winit c) ops in
    alookup t (w_buf (fst r)) <> None /\ alookup t (w_dec (fst r)) = None /\ ~ forwarded (snd r) t s.
Proof.
  exists (fun _ _ => true), wit_cfg, [OSpan 0 wit_span], 1%N, 7%N.
  split; [exists 0, wit_span; split; [left; reflexivity|split; reflexivity]|].
  split; [reflexivity|]. vm_compute. split; [discriminate|]. split; [reflexivity|].
  intros [r H]. destruct H.
Qed.
Print Assumptions C36_shutdown_drain_refuted.

(* What does hold for the pinned code: traces decided before shutdown were handled completely.  If
   every buffer is empty when Stop is called (e.g. after the late ticks of C02_eventually_decided)
   every accepted span of a never-forgotten trace has a decision and was forwarded iff kept/dry run;
   Stop itself forwards nothing (so nothing is duplicated or forwarded for a dropped trace). *)
Theorem C36_nothing_lost_if_buffers_empty_partial :
  forall (sampler : N -> list span -> bool) (dry : bool) (c : cfg) (ops : list op) (t s : N),
  w_buf (fst (run sampler dry (winit c) ops)) = [] ->
  ~ In (OForget t) ops -> accepted_by ops t s ->
  exists k, alookup t (w_dec (fst (run_then_stop sampler dry stop_pinned (winit c) ops))) = Some k /\
            (forwarded (snd (run_then_stop sampler dry stop_pinned (winit c) ops)) t s <-> k || dry = true).
Proof. exact stop_pinned_loses_nothing_if_drained. Qed.
Print Assumptions C36_nothing_lost_if_buffers_empty_partial.

(* The documented drain (what a repair has to do; notes/C36_drain_patch.diff): deciding every
   buffered trace the usual way empties the buffer, records a decision for each and forwards exactly
   the spans of the kept ones (all of them under dry run). *)
Theorem C36_documented_drain_meets_the_property :
  forall (sampler : N -> list span -> bool) (dry : bool) (w : wstate),
  NoDup (akeys (w_buf w)) ->
  w_buf (fst (stop_drain sampler dry w)) = [] /\
  forall t tr, alookup t (w_buf w) = Some tr ->
    alookup t (w_dec (fst (stop_drain sampler dry w))) = Some (sampler (c_ver (w_cfg w)) (rev (t_spans tr))) /\
    (forall s, In s (sids tr) ->
       (In (t, s, tick_reason (w_cfg w) tr) (snd (stop_drain sampler dry w)) <->
        sampler (c_ver (w_cfg w)) (rev (t_spans tr)) || dry = true)).
Proof. exact stop_drain_spec. Qed.
Print Assumptions C36_documented_drain_meets_the_property.

(* the source shape the model of Stop relies on; [stop_visits_buffers_*] become true when a drain is added,
   which breaks this example on purpose: the model must then be moved to stop_drain *)
Example C36_code_shape :
  stop_closes_worker_channels && stop_waits_for_workers_before_closing_send_queue &&
  collect_returns_on_closed_channel && negb (stop_visits_buffers_in_stop || stop_visits_buffers_in_collect) &&
  (* a worker may still be deciding when shutdown starts: its decision cache is stopped only after it has exited *)
  list_eqb String.eqb stop_order_of_wait_and_cache_stop ["i.workersWG.Wait()"; "worker.Stop()"]%string = true.
Proof. vm_compute. reflexivity. Qed.

(* ---------------- transmission part of the shutdown sequence ---------------- *)
(* "flushes every pending outgoing batch".  For every MaxBatchSize >= 1, BatchTimeout >= 4 ns, every
   history of enqueues and clock advances (whatever the collector handed over before and during its own
   Stop), every behaviour of the API: after DirectTransmission.Stop nothing is pending, every enqueued
   event is in exactly one outgoing request (or was dropped as > 1 MB and counted), and the queued-items
   gauge is back to zero. *)
Theorem C36_transmission_stop_flushes_everything :
  forall (mb b : Z) (beh : N -> list Transmit.resp) (bad : N -> bool) (t0 : Z) (ops : list Transmit.top),
  1 <= mb -> 4 <= b -> Transmit.ops_ok ops = true ->
  exists r, Transmit.run (Transmit.gen_cfg mb b) beh bad t0 (ops ++ [Transmit.Stop]) = Some r /\
    Transmit.r_pending r = [] /\
    Permutation.Permutation (Transmit.enqueued ops) (concat (map Transmit.rq_evs (Transmit.r_reqs r)) ++ Transmit.r_over r) /\
    Transmit.r_ups r - Transmit.downs (Transmit.r_cnt r) = 0.
Proof. exact Proofs.Transmit.c26_stop. Qed.
Print Assumptions C36_transmission_stop_flushes_everything.

(* The batches of the flush are sent by the same retry loop as any other batch (Stop dispatches them
   through sendBatch): a first attempt answered 429/503 with a Retry-After sleep in (0, 60 s) is followed
   by the sleep and a second attempt; so is a first attempt that timed out.  (The source's retry bound is 2.) *)
Theorem C36_flush_batch_retried_after_429_503 :
  forall (c : Transmit.tcfg) (code sl : Z) (sts : list Z) (rest : list Transmit.resp),
  Transmit.retryable_status code = true -> 0 < sl < Transmit.retryLim c ->
  fst (fst (Transmit.tries c 2 (Transmit.RHttp code sl sts :: rest))) = 2%N /\
  exists more, snd (fst (Transmit.tries c 2 (Transmit.RHttp code sl sts :: rest))) = sl :: more.
Proof. exact Proofs.ShutdownTx.tries2_retries_http. Qed.
Print Assumptions C36_flush_batch_retried_after_429_503.

Theorem C36_flush_batch_retried_after_timeout :
  forall (c : Transmit.tcfg) (rest : list Transmit.resp),
  fst (fst (Transmit.tries c 2 (Transmit.RTimeout :: rest))) = 2%N.
Proof. exact Proofs.ShutdownTx.tries2_retries_timeout. Qed.
Print Assumptions C36_flush_batch_retried_after_timeout.

Example C36_retry_bound_in_source : forall mb b, Transmit.ntries (Transmit.gen_cfg mb b) = 2%nat.
Proof. exact Proofs.ShutdownTx.flush_ntries. Qed.
