(* C37 - unhandled paths are proxied to Honeycomb faithfully.   PARTIAL CLAIM.
   Only theorem statements closed by [exact]; proofs live in Proofs/Proxy.v.

   What is proved is about route/proxy.go's own logic on request/response records (all methods, targets, bodies,
   header maps with unique names and arbitrary value lists, all upstream answers).  Not modelled, hence not
   claimed: net/http transfer semantics (Host, Content-Length / chunking, the transport's own Accept-Encoding and
   User-Agent, transparent gzip, Date, content sniffing, connection failures) and gorilla/mux's redirect of unclean
   paths before the proxy runs.  Repeated headers are compared in the canonical form "values joined by ','",
   which is what the code produces; the join is lossy for values that contain commas. *)
From Refinery Require Import Lib.Base Model.Proxy Proofs.Proxy.

(* the source of Router.proxy has the shape the model was written for *)
Theorem C37_source_matches_model : source_ok = true.
Proof. exact source_ok_true. Qed.
Print Assumptions C37_source_matches_model.

(* the working tree relays redirects and keeps the client's whole X-Forwarded-For chain (repo fixes 7892ae0, f2ad173) *)
Theorem C37_tree_flags : pp_relay_redirects gen_pparams = true /\ pp_xff_all gen_pparams = true.
Proof. split; vm_compute; reflexivity. Qed.
Print Assumptions C37_tree_flags.

Theorem C37_same_method_target_body : forall p r,
  q_method (relay_req p r) = q_method r /\ q_target (relay_req p r) = q_target r /\ q_body (relay_req p r) = q_body r.
Proof. exact relay_same_method_target_body. Qed.
Print Assumptions C37_same_method_target_body.

(* every client header other than X-Forwarded-For reaches the upstream with its values joined by ",";
   the upstream sees no other header (the statement is an equality of lookups for EVERY name) *)
Theorem C37_request_headers_preserved : forall p r n, n <> xff ->
  hlookup n (q_hdrs (relay_req p r)) = option_map (fun vs => [joinc vs]) (hlookup n (q_hdrs r)).
Proof. exact relay_req_headers. Qed.
Print Assumptions C37_request_headers_preserved.

(* X-Forwarded-For = the client's chain (all its values, ", "-joined) followed by the peer address *)
Theorem C37_forwarded_for : forall p r, pp_xff_all p = true ->
  hlookup xff (q_hdrs (relay_req p r)) = Some [forwarded_for p r] /\
  forwarded_for p r =
  match hlookup xff (q_hdrs r) with
  | Some vs => if String.eqb (joincs vs) "" then q_remote r else (joincs vs ++ ", " ++ q_remote r)%string
  | None => q_remote r
  end.
Proof. intros p r H. split; [exact (relay_req_xff p r) | exact (forwarded_for_all p r H)]. Qed.
Print Assumptions C37_forwarded_for.

Theorem C37_same_status_body : forall p u, s_status (relay_resp p u) = s_status u /\ s_body (relay_resp p u) = s_body u.
Proof. exact relay_same_status_body. Qed.
Print Assumptions C37_same_status_body.

(* every header the upstream sent reaches the client with its values joined by "," *)
Theorem C37_response_headers_kept_partial : forall p u n vs, NoDup (names (s_hdrs u)) ->
  hlookup n (s_hdrs u) = Some vs -> hlookup n (s_hdrs (relay_resp p u)) = Some [joinc vs].
Proof. exact relay_resp_headers_kept. Qed.
Print Assumptions C37_response_headers_kept_partial.

(* PARTIAL: a header the upstream did NOT send appears at the client exactly when setResponseHeaders presets it *)
Theorem C37_response_headers_others_partial : forall p u n,
  hlookup n (s_hdrs u) = None -> hlookup n (s_hdrs (relay_resp p u)) = hlookup n (pp_defaults p).
Proof. exact relay_resp_headers_others. Qed.
Print Assumptions C37_response_headers_others_partial.

(* ... so "headers returned unchanged" is false on the working tree: known finding C37-preset-response-headers *)
Theorem C37_response_headers_unchanged_refuted :
  exists u n, hlookup n (s_hdrs u) = None /\ hlookup n (s_hdrs (relay_resp gen_pparams u)) <> None.
Proof. exact resp_headers_unchanged_refuted. Qed.
Print Assumptions C37_response_headers_unchanged_refuted.

(* the pinned tree forwarded only the first X-Forwarded-For value *)
Theorem C37_pinned_xff_refuted :
  let r := {| q_method := "GET"; q_target := "/1/markers/ds"; q_body := "";
              q_hdrs := [(xff, ["10.0.0.1"; "10.0.0.2"])]; q_remote := "192.0.2.1:1234" |}%string in
  forwarded_for pinned_pparams r = "10.0.0.1, 192.0.2.1:1234"%string.
Proof. exact pinned_xff_refuted. Qed.
Print Assumptions C37_pinned_xff_refuted.

Local Open Scope string_scope.
Example C37_nonvacuous :
  let r := {| q_method := "POST"; q_target := "/1/markers/my%20ds?x=1&x=2"; q_body := "{}";
              q_hdrs := [("Accept", ["a"; "b"]); (xff, ["10.0.0.1"; "10.0.0.2"]); ("X-Honeycomb-Team", ["k"])];
              q_remote := "192.0.2.1:1234" |} in
  let u := {| s_status := 302; s_hdrs := [("Location", ["/x"]); ("Set-Cookie", ["a=1"; "b=2"])]; s_body := "moved" |} in
  q_hdrs (relay_req gen_pparams r) =
    [("Accept", ["a,b"]); (xff, ["10.0.0.1, 10.0.0.2, 192.0.2.1:1234"]); ("X-Honeycomb-Team", ["k"])] /\
  relay_resp gen_pparams u =
    {| s_status := 302;
       s_hdrs := [("Content-Type", ["application/json"]); ("Access-Control-Allow-Origin", ["*"]);
                  ("Location", ["/x"]); ("Set-Cookie", ["a=1,b=2"])];
       s_body := "moved" |}.
Proof. vm_compute. split; reflexivity. Qed.
