(* C30 — liveness and readiness follow subsystem reports within one tick.
   Only theorem statements closed by [exact]; proofs live in Proofs/Health.v.

   hstep/hrun/hfinal : executable model of internal/health/health.go (three maps, as in the code)
   sstep/srun/sfinal : specification state computed from the history alone: the registered
                       subsystems with their timeout and latest report (flag, ticks since, instant),
                       and the subsystems that unregistered and did not register again
   wf T t0 ops       : the history is tick-periodic: a tick is processed exactly every T, the clock
                       never passes a due tick and never runs backwards (operations that fall on a
                       tick instant may come before or after that tick). *)
From Refinery Require Import Lib.Base Model.Health Proofs.Health Gen.GenC30.

(* The tick period constant of the code is the 500 ms of the property text. Only the constant is taken
   from the source text: that the ticker runs with this period, counts every positive counter down by
   it and clamps at 0, and that Ready resets the counter to the timeout, is established by the
   correspondence check on the running code (the driver ticks with the period the code passes to
   NewTicker and the monitor compares it with this constant), independently of statement shape. *)
Theorem C30_tick_is_500ms : ticker_time = 500000000 /\ 0 <= ticker_time.
Proof. split; vm_compute; congruence. Qed.
Print Assumptions C30_tick_is_500ms.

(* Every answer of IsAlive / IsReady in every history (any order of register / unregister / report /
   tick / query, any timeouts) equals the answer computed from the specification state. *)
Theorem C30_health_refines_spec : forall T t0 ops,
  0 <= T -> hrun T hinit ops = srun T (sinit T t0) ops.
Proof. exact health_refines_spec. Qed.
Print Assumptions C30_health_refines_spec.

(* The specification state is what it is called: after a report of k that is followed by
   operations not concerning k, it holds that report's flag, the number of ticks processed since,
   and the instant of the report; the clock has advanced by the elapsed time. *)
Theorem C30_spec_last_report : forall T t0 pre post k b sb,
  alookup k (subs (sfinal T (sinit T t0) pre)) = Some sb ->
  existsb (touches k) post = false ->
  let sp := sfinal T (sinit T t0) (pre ++ HReady k b :: post) in
  alookup k (subs sp) =
    Some {| s_to := s_to sb; s_rep := Some (b, nticks post, h_now (sfinal T (sinit T t0) pre)) |} /\
  h_now sp - h_now (sfinal T (sinit T t0) pre) = elapsed post.
Proof. exact spec_last_report. Qed.
Print Assumptions C30_spec_last_report.

(* Never reported dead: at any point of any tick-periodic history, a subsystem whose latest report
   is less than (timeout - T) old still has a positive counter ... *)
Theorem C30_never_dead_sub : forall T t0 ops, 0 <= T -> wf T t0 ops = true ->
  let s := hfinal T hinit ops in let sp := sfinal T (sinit T t0) ops in
  forall k sb b n r,
    alookup k (subs sp) = Some sb -> s_rep sb = Some (b, n, r) ->
    h_now sp - r < s_to sb - T ->
    exists c, alookup k (timeLeft s) = Some c /\ 0 < c.
Proof. exact never_dead_sub. Qed.
Print Assumptions C30_never_dead_sub.

(* ... hence if that holds for every subsystem that has reported, IsAlive answers true
   (subsystems that have not reported since registering never count as dead). *)
Theorem C30_never_dead : forall T t0 ops, 0 <= T -> wf T t0 ops = true ->
  let s := hfinal T hinit ops in let sp := sfinal T (sinit T t0) ops in
  (forall k sb b n r, alookup k (subs sp) = Some sb -> s_rep sb = Some (b, n, r) ->
                      h_now sp - r < s_to sb - T) ->
  check_alive s = true.
Proof. exact never_dead. Qed.
Print Assumptions C30_never_dead.

(* Dead after silence: a registered subsystem (timeout >= 0) whose latest report is more than
   (timeout + T) old has counter 0, IsAlive answers false and IsReady answers false — at every
   such instant, i.e. until it reports (or re-registers / unregisters) again. *)
Theorem C30_dead_after : forall T t0 ops, 0 <= T -> wf T t0 ops = true ->
  let s := hfinal T hinit ops in let sp := sfinal T (sinit T t0) ops in
  forall k sb b n r,
    alookup k (subs sp) = Some sb -> s_rep sb = Some (b, n, r) ->
    0 <= s_to sb -> h_now sp - r > s_to sb + T ->
    alookup k (timeLeft s) = Some 0 /\ check_alive s = false /\ check_ready s = false.
Proof. exact dead_after. Qed.
Print Assumptions C30_dead_after.

(* Ready exactly when at least one subsystem is registered, none is in the unregistered state, and
   every registered one has reported since registering, declared itself ready in its latest
   report and has not used up its timeout in whole ticks. *)
Theorem C30_ready_iff : forall T t0 ops, 0 <= T ->
  let s := hfinal T hinit ops in let sp := sfinal T (sinit T t0) ops in
  check_ready s = true <->
  (subs sp <> [] /\ unreg sp = [] /\
   forall k sb, alookup k (subs sp) = Some sb ->
     exists b n r, s_rep sb = Some (b, n, r) /\ b = true /\ Z.of_N n * T < s_to sb).
Proof. exact ready_iff. Qed.
Print Assumptions C30_ready_iff.

(* ... in particular ready whenever every registered subsystem's latest report said ready and is
   less than (timeout - T) old. *)
Theorem C30_ready_when_fresh : forall T t0 ops, 0 <= T -> wf T t0 ops = true ->
  let s := hfinal T hinit ops in let sp := sfinal T (sinit T t0) ops in
  subs sp <> [] -> unreg sp = [] ->
  (forall k sb, alookup k (subs sp) = Some sb ->
     exists n r, s_rep sb = Some (true, n, r) /\ h_now sp - r < s_to sb - T) ->
  check_ready s = true.
Proof. exact ready_when_fresh. Qed.
Print Assumptions C30_ready_when_fresh.

(* Non-vacuity: a tick-periodic history (T = the code's 500 ms, timeout 1.5 s; also the 15 s of the
   real collector) in which the subsystem is first alive and ready and then, silent, dead. *)
Example C30_nonvacuous :
  let T := ticker_time in
  let ops := [HReg 1 1500000000; HReady 1 true; HAdv T; HAlive; HTick; HAlive; HIsReady;
              HAdv T; HTick; HAdv T; HTick; HAdv T; HTick; HAdv 1; HAlive; HIsReady;
              HReady 1 true; HAlive; HIsReady; HUnreg 1; HIsReady]%N in
  wf T 0 ops = true /\
  hrun T hinit ops =
    [HNone; HNone; HNone; HBool true; HNone; HBool true; HBool true;
     HNone; HNone; HNone; HNone; HNone; HNone; HNone; HBool false; HBool false;
     HNone; HBool true; HBool true; HNone; HBool false] /\
  (let sp := sfinal T (sinit T 0) (firstn 14 ops) in
   exists sb b n r, alookup 1%N (subs sp) = Some sb /\ s_rep sb = Some (b, n, r) /\
                    0 <= s_to sb /\ h_now sp - r > s_to sb + T) /\
  wf T 0 [HReg 1 15000000000; HReady 1 true; HAdv T; HTick; HAlive]%N = true.
Proof.
  split; [vm_compute; reflexivity|]. split; [vm_compute; reflexivity|]. split; [|vm_compute; reflexivity].
  exists {| s_to := 1500000000; s_rep := Some (true, 4%N, 0) |}, true, 4%N, 0.
  vm_compute. repeat split; try reflexivity; discriminate.
Qed.
