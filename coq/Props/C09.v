(* C09 — placeholder while the correspondence is being validated. *)
From Refinery Require Import Lib.Base Model.Values Model.Rules Model.Wire Model.KeyLite.
