(* C09 — the sampling decision, rate and key do not depend on span order or wire encoding.
   Only theorem statements closed by [exact]; proofs live in Proofs/Wire.v.

   Model/Wire.v: wire values (signed / unsigned integers, 32 / 64-bit floats, JSON numbers), the
   ingestion paths and [dec] = decoding followed by Payload.Get's normalisation.
   Model/Rules.v is the rules sampler of C08; Model/KeyLite.v the key builder (below the cap).
   All theorems hold for every choice of the oracles (fmt / strconv / regexp, downstream sampler,
   rand draw). *)
From Coq Require Import Permutation.
From Refinery Require Import Lib.Base Model.Values Model.Rules Model.RulesSpec Model.Wire Model.KeyLite
     Proofs.Rules Proofs.Wire.
Local Open Scope string_scope.
Local Open Scope Z_scope.

(* (a) ORDER: any permutation of the spans (same root span) — every rule set, valid or not. *)
Theorem C09_rules_order_invariant :
  forall fmtv parsef rx ds draw t1 t2 rules i,
    trace_perm t1 t2 ->
    run_rules fmtv parsef rx ds draw t1 i rules = run_rules fmtv parsef rx ds draw t2 i rules.
Proof. exact run_rules_perm. Qed.
Print Assumptions C09_rules_order_invariant.

Theorem C09_key_order_invariant :
  forall fmtf fields use_len t1 t2,
    trace_perm t1 t2 -> key_of fmtf fields use_len t1 = key_of fmtf fields use_len t2.
Proof. exact key_perm. Qed.
Print Assumptions C09_key_order_invariant.

(* (b) ENCODING.  msgpack signedness and float width: the value the samplers read is identical. *)
Theorem C09_msgpack_unsigned_reads_as_signed :
  forall p z, z <= int_max -> dec p (WUint z) = dec p (WInt z).
Proof. exact dec_unsigned_same. Qed.
Print Assumptions C09_msgpack_unsigned_reads_as_signed.

Theorem C09_msgpack_float32_reads_as_float64 :
  forall p d, dec p (WF32 d) = dec p (WF64 d).
Proof. exact dec_f32_same. Qed.
Print Assumptions C09_msgpack_float32_reads_as_float64.

(* Any two ways of carrying the same value (signed / unsigned, 32 / 64 bit, integer vs float with
   that value, through any two ingestion paths; integers on a JSON path or sent as floats must be
   exactly representable, |z| < 2^53) decode to equivalent values ... *)
Theorem C09_decoding_preserves_value :
  forall p1 w1 p2 w2, wire_rel p1 w1 p2 w2 -> sv_eqv (dec p1 w1) (dec p2 w2).
Proof. exact dec_rel. Qed.
Print Assumptions C09_decoding_preserves_value.

(* ... and equivalent traces get the same decision, rate, reason and key from EVERY rule set ... *)
Theorem C09_rules_encoding_invariant :
  forall fmtv parsef rx ds draw rules t1 t2,
    wtrace_rel t1 t2 ->
    run_rules fmtv parsef rx ds draw (dec_trace t1) O rules =
    run_rules fmtv parsef rx ds draw (dec_trace t2) O rules.
Proof. exact encoding_invariant. Qed.
Print Assumptions C09_rules_encoding_invariant.

(* ... and the same dynamic-sampler key. *)
Theorem C09_key_encoding_invariant :
  forall fmtf fields use_len t1 t2,
    wtrace_rel t1 t2 ->
    key_of fmtf fields use_len (dec_trace t1) = key_of fmtf fields use_len (dec_trace t2).
Proof. exact key_encoding_invariant. Qed.
Print Assumptions C09_key_encoding_invariant.

(* ---------- non-vacuity: one trace sent two ways ---------- *)
Definition exf (d : dy) : string := "1.5".
Definition ex_a : wtrace :=
  let s1 := {| w_path := PMsgp; w_fields := [("status", WInt 200); ("dur", WF64 (Dy 3 (-1)))] |} in
  let s2 := {| w_path := PMsgp; w_fields := [("status", WInt 500)] |} in
  {| wt_spans := [s1; s2]; wt_root := Some s1 |}.
Definition ex_b : wtrace :=
  let s1 := {| w_path := PJson; w_fields := [("status", WInt 200); ("dur", WF64 (Dy 3 (-1)))] |} in
  let s2 := {| w_path := PMsgp; w_fields := [("status", WUint 500)] |} in
  {| wt_spans := [s1; s2]; wt_root := Some s1 |}.
Definition ex_c09_rules : list rule :=
  [{| r_name := "ok"; r_rate := 7; r_drop := false; r_scope := "span";
      r_conds := [{| c_field := "status"; c_fields := []; c_opname := "=";
                     c_val := CScalar (CStr "200"); c_dtname := "string" |}];
      r_sampler := false |}].

Example C09_nonvacuous :
  wtrace_rel ex_a ex_b /\
  run_rules exf (fun _ => None) (fun _ => None) (fun _ => None) (fun _ => 0) (dec_trace ex_b) O ex_c09_rules =
    {| o_rate := 7; o_keep := true; o_reason := "rules/span/ok"; o_key := "" |} /\
  key_of exf ["status"; "root.dur"] true (dec_trace ex_b) = key_of exf ["status"; "root.dur"] true (dec_trace ex_a).
Proof.
  split; [|split].
  - split; [|cbn; repeat constructor; cbn; unfold small; repeat split; try reflexivity; vm_compute; try reflexivity; try discriminate].
    repeat constructor; cbn; unfold small; repeat split; try reflexivity; try (vm_compute; reflexivity); try (vm_compute; discriminate).
    all: intros; vm_compute; reflexivity.
  - vm_compute. reflexivity.
  - vm_compute. reflexivity.
Qed.
