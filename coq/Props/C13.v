(* C13 — throughput goals scale with the current cluster size.
   Only theorem statements closed by [exact]; proofs live in Proofs/Registry.v.
   [frun finit ops] is the factory after any history of sampler creations (top-level or downstream,
   any worker), ClearDynsamplers (reload) and membership changes with or without a notification.
   k_ucs / k_goal are the UseClusterSize flag and GoalThroughputPerSec of the definition an
   instance was created from (the registry key holds the whole configuration). *)
From Refinery Require Import Lib.Base Lib.Strs_samp Model.Registry Proofs.Registry.
From Refinery Require Gen.GenC12 Gen.GenC13.

Theorem C13_source_shape :
  GenC13.peer_count_only_on_success = true /\ GenC13.peers_read_under_lock = true /\
  GenC13.goal_is_max_quot_1 = true /\
  GenC13.peer_count_starts_at_1 = true /\ GenC13.callback_registered = true /\
  length GenC13.goal_recorded_when_use_cluster_size = 3%nat /\
  GenC13.create_updates_peer_counts = true /\
  GenC12.key_format_whole = true.
Proof. repeat split; reflexivity. Qed.
Print Assumptions C13_source_shape.

(* Every history, every live throughput instance: created from a UseClusterSize definition its goal
   is max(1, floor(configured goal / peer count)); otherwise it is the configured goal (dynsampler-go
   reads a configured 0 as 100).  The peer count is at least 1. *)
Theorem C13_goals_in_force : forall ops k i,
  let s := frun finit ops in
  kfind k (f_reg s) = Some i -> is_throughput (k_type k) = true ->
  1 <= f_peers s /\
  i_goal i = if k_ucs k then Z.max 1 (k_goal k / f_peers s) else k_init k.
Proof. exact goals_in_force. Qed.
Print Assumptions C13_goals_in_force.

(* the peer count is the current number of peers once the factory has been notified … *)
Theorem C13_peers_current_after_notification : forall ops n,
  0 < n -> f_peers (frun finit (ops ++ [FPeers (Some n) true])) = n.
Proof. exact peers_current_after_notification. Qed.
Print Assumptions C13_peers_current_after_notification.

(* … and after any sampler creation (lazy creation on any worker re-reads the peer list) *)
Theorem C13_peers_current_after_creation : forall s sc name d n,
  f_src s = Some n -> 0 < n -> f_peers (fst (create s sc name d)) = n.
Proof. exact peers_current_after_creation. Qed.
Print Assumptions C13_peers_current_after_creation.

(* a membership change delivered while a sampler is being created (the creation reads the peer list
   under the factory lock, the notification waits for it) is not lost *)
Theorem C13_peers_current_after_racing_creation : forall s sc name d n,
  0 < n -> f_peers (fst (fstep s (FCreateRace sc name d (Some n)))) = n.
Proof. exact peers_current_after_racing_creation. Qed.
Print Assumptions C13_peers_current_after_racing_creation.

(* a failed or empty peer list never changes the count *)
Theorem C13_peers_unchanged_on_failure : forall s,
  (f_src s = None \/ exists n, f_src s = Some n /\ n <= 0) ->
  f_peers (update_peer_counts s) = f_peers s.
Proof. exact peers_unchanged_on_failure. Qed.
Print Assumptions C13_peers_unchanged_on_failure.

(* Go's max(cfg/peerCount, 1) with truncating division is max(1, floor(cfg/peerCount)) *)
Theorem C13_truncating_division_is_floor : forall c p, 1 <= p -> node_goal c p = Z.max 1 (c / p).
Proof. exact node_goal_floor. Qed.
Print Assumptions C13_truncating_division_is_floor.

(* Non-vacuity: creation after a change, reload between changes, a mixture of UseClusterSize and
   plain definitions that differ in nothing else *)
Example C13_nonvacuous :
  let ucs := {| dd_type := 7; dd_params := [100; 1; 0; 0; 0]; dd_fields := [u "a"] |} in
  let plain := {| dd_type := 7; dd_params := [100; 0; 0; 0; 0]; dd_fields := [u "a"] |} in
  let ema := {| dd_type := 5; dd_params := [7; 1; 0; 0; 0; 0; 0; 0; 0; 0]; dd_fields := [] |} in
  let s := frun finit [FPeers (Some 3) true; FCreate Top (u "prod") ucs; FCreate Top (u "prod") plain;
                       FPeers (Some 8) false; FCreate Down (u "prod") ema; FPeers None true;
                       FPeers (Some 0) true] in
  live_goals s = [(2%N, 1); (1%N, 100); (0%N, 12)] /\ f_peers s = 8 /\
  live_goals (frun s [FClear; FPeers (Some 2) true; FCreate Top (u "prod") ucs]) = [(3%N, 50)].
Proof. vm_compute. repeat split; reflexivity. Qed.
