(* C18 — Redis peer membership converges; membership messages round-trip.
   Only theorem statements closed by [exact]; proofs live in Proofs/Peers.v (and Proofs/TTL.v).

   marshal / unmarshal : the peer command codec on byte lists (after the fix: split at the last comma)
   item                : a command a node processes (processing instant, publish instant, R/U, id, address)
   get_peers ttl t0 items tau : the executable model of the node's MapWithTTL (Model/TTL.v, lazy cleanup)
                         fed with the items at their instants and listed at tau (GetPeers)
   spec_listing        : the same from the TTL liveness specification (latest R of every id, alive for ttl) *)
From Refinery Require Import Lib.Base Model.TTL Model.Peers Proofs.Peers Gen.GenC18.

(* The constants and code shape the theorems are about: entry timeout 10 s, refresh every 3 s plus a
   jitter below 3 s / 5, so a live node publishes at least every imax = 3.6 s, which leaves room for
   6.4 s of delivery delay inside the entry timeout; the decoder splits at the last comma; instance
   ids are 8 hex digits (never contain a comma). *)
Definition imax : Z := refresh_interval + refresh_interval / refresh_jitter_div.
Theorem C18_source_shape :
  peer_entry_timeout = 10000000000 /\ refresh_interval = 3000000000 /\ imax = 3600000000 /\
  imax + 6400000000 <= peer_entry_timeout /\ imax <= 6400000000 /\
  unmarshal_splits_at_last_comma = true /\ marshal_is_action_address_comma_id = true /\
  peers_map_ttl_is_peer_entry_timeout = true /\ listen_sets_and_deletes_by_id = true /\
  instance_id_format = "%08.8x"%string.
Proof. repeat split; vm_compute; congruence. Qed.
Print Assumptions C18_source_shape.

(* Codec, partial: every register / unregister command with ANY address and any comma-free id
   decodes to exactly what was encoded. Missing for the full statement "all ID strings": an id that
   contains a comma (C18_codec_full_refuted) — the wire format R<address>,<id> cannot carry it;
   production ids are 8 hex digits (instance_id_format above). *)
Theorem C18_codec_roundtrip_partial : forall a addr id,
  act_ok a = true -> ~ In comma id -> unmarshal (marshal a addr id) = Some (a, addr, id).
Proof. exact codec_roundtrip. Qed.
Print Assumptions C18_codec_roundtrip_partial.

Theorem C18_codec_full_refuted :
  exists a addr id, act_ok a = true /\ unmarshal (marshal a addr id) <> Some (a, addr, id).
Proof. exact codec_id_comma_refuted. Qed.
Print Assumptions C18_codec_full_refuted.

(* Nothing is invented on the way in: whatever decodes re-encodes to the very same bytes (so two
   different messages never decode to the same command), its action is R or U, its id comma-free. *)
Theorem C18_codec_decode_encode : forall msg a addr id,
  unmarshal msg = Some (a, addr, id) -> marshal a addr id = msg /\ act_ok a = true /\ ~ In comma id.
Proof. exact codec_decode_encode. Qed.
Print Assumptions C18_codec_decode_encode.

(* The node's view (lazy-cleanup TTL map, as in the code) is the liveness specification's view. *)
Theorem C18_view_refines_spec : forall ttl t0 items tau,
  0 <= ttl -> items_ok t0 items tau = true ->
  get_peers ttl t0 items tau = match spec_listing ttl items tau with [] => None | l => Some l end.
Proof. exact view_refines_spec. Qed.
Print Assumptions C18_view_refines_spec.

(* Convergence. For ANY list of commands a node processed (in time order, ties and the relation to
   the publish order arbitrary — registrations and unregistrations may overtake each other), if
     - every command is processed within d of being published, and imax + d <= ttl,
     - the nodes in L only ever register, with their own address, and each has a registration
       published in the last d + imax (alive and publishing at least every imax),
     - every other node published nothing after T0 (stopped gracefully or crashed before),
     - the query comes later than T0 + d + ttl,
   then GetPeers lists exactly the nodes of L with their addresses. *)
Theorem C18_get_peers_converged : forall ttl d imax T0 t0 tau items L addr_of,
  items_ok t0 items tau = true -> imax + d <= ttl -> T0 + d + ttl < tau ->
  (forall it, In it items -> i_t it <= i_p it + d) ->
  (forall it, In it items -> In (i_id it) L -> i_reg it = true /\ i_addr it = addr_of (i_id it)) ->
  (forall id, In id L -> exists it, In it items /\ i_id it = id /\ tau - d - imax <= i_p it) ->
  (forall it, In it items -> ~ In (i_id it) L -> i_p it <= T0) ->
  0 <= ttl -> L <> [] ->
  exists l, get_peers ttl t0 items tau = Some l /\
            forall id a, In (id, a) l <-> In id L /\ a = addr_of id.
Proof. exact get_peers_converged. Qed.
Print Assumptions C18_get_peers_converged.

(* ... in particular within the entry timeout plus one refresh interval when delivery takes at most
   one refresh interval. *)
Theorem C18_converged_within_timeout_plus_refresh : forall ttl d imax T0 t0 tau items L addr_of,
  items_ok t0 items tau = true -> imax + d <= ttl -> d <= imax -> T0 + ttl + imax < tau ->
  (forall it, In it items -> i_t it <= i_p it + d) ->
  (forall it, In it items -> In (i_id it) L -> i_reg it = true /\ i_addr it = addr_of (i_id it)) ->
  (forall id, In id L -> exists it, In it items /\ i_id it = id /\ tau - d - imax <= i_p it) ->
  (forall it, In it items -> ~ In (i_id it) L -> i_p it <= T0) ->
  0 <= ttl -> L <> [] ->
  exists l, get_peers ttl t0 items tau = Some l /\
            forall id a, In (id, a) l <-> In id L /\ a = addr_of id.
Proof. exact get_peers_converged_within. Qed.
Print Assumptions C18_converged_within_timeout_plus_refresh.

(* Non-vacuity: node 1 sees itself, node 2 (alive) and node 3, which stopped at T0 = 5 s; node 3's
   last registration (published at 4 s) overtakes its unregistration and is processed at 7 s. At
   17 s + 1 ns .. the view is exactly {1, 2}. *)
Example C18_nonvacuous :
  let s := 1000000000 in
  let it t p r i := {| i_t := t * s; i_p := p * s; i_reg := r; i_id := i; i_addr := i |} in
  let items := [it 0 0 true 1%N; it 1 1 true 2%N; it 2 2 true 3%N; it 5 5 false 3%N; it 7 4 true 3%N;
                it 12 12 true 1%N; it 12 12 true 2%N; it 15 15 true 1%N; it 16 15 true 2%N] in
  let tau := 18 * s + 1 in
  items_ok 0 items tau = true /\
  forallb (fun x => i_t x <=? i_p x + 3 * s) items = true /\
  get_peers peer_entry_timeout 0 items tau = Some [(2, 2); (1, 1)]%N /\
  get_peers peer_entry_timeout 0 items (17 * s) = Some [(2, 2); (1, 1); (3, 3)]%N /\
  unmarshal (marshal "R"%char (la "http://a,b:8081") (la "0123abcd")) = Some ("R"%char, la "http://a,b:8081", la "0123abcd").
Proof. vm_compute. repeat split; reflexivity. Qed.
