(* C22 — event timestamps are preserved exactly.
   Only theorem statements closed by [exact]; proofs live in Proofs/TimestampText.v and Proofs/Timestamp.v.

   The subject of the theorems is the model instantiated with the facts the translator extracted
   from the Go source (coq/Gen/GenC22.v): the digit counts of route.parseEpochDigits, the order of
   the parsing attempts in route.getEventTime, and the encoder used by
   transmit.batchedEvent.MarshalMsg.  [gen_is_std] fails to compile when any of them changes. *)
From Refinery Require Import Lib.Base Model.Timestamp Proofs.TimestampText Proofs.Timestamp.
From Refinery Require Import Gen.GenC22.
Local Open Scope Z_scope.

Definition gen_cfg : ts_cfg :=
  {| min_digits := epoch_min_digits; max_digits := epoch_max_digits; sec_digits := epoch_sec_digits;
     pad_digits := epoch_pad_digits; digits_first := epoch_digits_tried_first;
     batch_prefers_msgp := batch_prefers_msgpack_time; uses_time_ext := marshal_uses_time_ext |}.

Lemma gen_is_std : gen_cfg = std_cfg.
Proof. reflexivity. Qed.

(* the JSON batch decoder copies each event's time string out of the pooled parser's buffer
   (a zero-copy alias would let a later request overwrite it before it is converted): the time is
   assigned through a string(...) conversion and the decoder does not use package unsafe *)
Lemma gen_time_string_copied : batch_time_string_copied && negb batch_decoder_uses_unsafe = true.
Proof. reflexivity. Qed.

(* Integer Unix epoch in the event-time header or a batch element's time field: ten digits of
   seconds followed by k = 0..9 digits of fraction (seconds, milliseconds, microseconds,
   nanoseconds and everything between).  For EVERY instant of the range that is expressible with k
   fractional digits, what a standard msgpack reader finds in the forwarded event is that instant. *)
Theorem C22_epoch_exact : forall k t,
  (k <= 9)%nat -> in_range t -> has_precision k t ->
  received gen_cfg (InText (render_epoch k t)) = Some t.
Proof. rewrite gen_is_std. exact received_epoch. Qed.
Print Assumptions C22_epoch_exact.

(* RFC 3339 with 0..9 fractional digits and any zone offset within +-23:59 ("Z" or numeric). *)
Theorem C22_rfc3339_exact : forall k off zulu t,
  (k <= 9)%nat -> -1440 < off < 1440 -> in_range t -> has_precision k t ->
  received gen_cfg (InText (render_rfc k off zulu t)) = Some t.
Proof. rewrite gen_is_std. exact received_rfc. Qed.
Print Assumptions C22_rfc3339_exact.

(* msgpack timestamp 32 / 64 / 96 in a msgpack batch. *)
Theorem C22_msgpack_exact : forall fmt t,
  in_range t -> (fmt = 32%N -> snd t = 0 /\ fst t < 2 ^ 32) -> (fmt = 64%N -> fst t < 2 ^ 34) ->
  received gen_cfg (InMsgp (client_mts fmt t)) = Some t.
Proof. rewrite gen_is_std. exact received_msgp. Qed.
Print Assumptions C22_msgpack_exact.

(* Beyond the stated range: ANY well-formed msgpack timestamp (all of int64 seconds) is forwarded as
   the same instant, or the request is refused when its nanoseconds field is invalid. *)
Theorem C22_msgpack_any : forall x,
  mts_wf x = true ->
  match decode_mts x with
  | Some t => received gen_cfg (InMsgp x) = Some t
  | None => received gen_cfg (InMsgp x) = None
  end.
Proof. rewrite gen_is_std. exact received_any_mts. Qed.
Print Assumptions C22_msgpack_any.

(* The re-encoding step alone: AppendTimeExt followed by a standard reader is the identity on every
   instant with int64 seconds, and always produces a well-formed extension. *)
Theorem C22_reencode_identity : forall sec ns,
  - 2 ^ 63 <= sec < 2 ^ 63 -> 0 <= ns < 10 ^ 9 ->
  decode_mts (encode_mts (sec, ns)) = Some (sec, ns) /\ mts_wf (encode_mts (sec, ns)) = true.
Proof. exact mts_roundtrip. Qed.
Print Assumptions C22_reencode_identity.

(* Batches and overlapping requests: whatever the mix of formats, every event of every request is
   forwarded with its own instant (the model has no state shared between events or requests; the
   correspondence drives overlapping requests against the real handlers to check the code has none). *)
Theorem C22_batch_pointwise : forall reqs,
  Forall creq_ok reqs ->
  forward_batch gen_cfg (map creq_input reqs) = map (fun r => Some (creq_instant r)) reqs.
Proof. rewrite gen_is_std. exact batch_pointwise. Qed.
Print Assumptions C22_batch_pointwise.

(* Non-vacuity: the value of the finding, a 13-digit millisecond epoch, satisfies the hypotheses and
   comes out exact; so do a nanosecond RFC 3339 time with an offset and a timestamp-96. *)
Example C22_nonvacuous :
  let t := (1535589382, 641000000) in
  in_range t /\ has_precision 3 t /\
  string_of_list_ascii (render_epoch 3 t) = "1535589382641"%string /\
  received gen_cfg (InText (render_epoch 3 t)) = Some t /\
  string_of_list_ascii (render_rfc 9 (-480) false (1535589382, 641000032)) = "2018-08-29T16:36:22.641000032-08:00"%string /\
  received gen_cfg (InText (render_rfc 9 (-480) false (1535589382, 641000032))) = Some (1535589382, 641000032) /\
  received gen_cfg (InMsgp (client_mts 96 (9999999999, 999999999))) = Some (9999999999, 999999999).
Proof. unfold in_range, has_precision. vm_compute. repeat split; try reflexivity; discriminate. Qed.
