(* C35 — concurrent components never race on shared state  (PARTIAL CLAIM).
   Only theorem statements closed by [exact]; proofs live in Proofs/Locks.v and Proofs/LocksInst.v.

   What is proved: a lockset / happens-before discipline is sound in an interleaving semantics of
   goroutines (all runs, unbounded), and the access tables regenerated from the Go source on every
   run pass the discipline check.  What is NOT proved (hence partial): that the real program's runs
   conform to the tables — the tables are syntactic (no alias analysis, dynamic dispatch by name,
   lifecycle edges Start-before-use / use-before-Stop listed by hand), and the Go runtime's mutex /
   channel / WaitGroup semantics are modelled.  The runtime side is searched with the Go race
   detector by harness/drive/c35.go. *)
From Refinery Require Import Lib.Base Model.Locks Model.LocksInst Proofs.Locks Proofs.LocksInst.
Local Open Scope nat_scope.

(* Generic soundness, dynamic form: in every well-formed interleaving of acquire / release / access /
   post / await steps, if every pair of conflicting accesses (same field of the same object,
   different goroutines, not both reads, not both atomic) holds a common lock — exclusively on at
   least one side — or is bracketed by a listed synchronisation edge, then every such pair is
   ordered by happens-before: no data race. *)
Theorem C35_lockset_sound : forall tbl tr,
  wf_locks tr ->
  (forall i j, conflict tbl tr i j -> lock_covered tr i j \/ edge_covered tr i j) ->
  race_free tbl tr.
Proof. exact lockset_sound. Qed.
Print Assumptions C35_lockset_sound.

Theorem C35_lockset_sound_no_race : forall tbl tr,
  wf_locks tr ->
  (forall i j, conflict tbl tr i j -> lock_covered tr i j \/ edge_covered tr i j) ->
  forall i j, ~ race tbl tr i j.
Proof. exact lockset_sound_no_race. Qed.
Print Assumptions C35_lockset_sound_no_race.

(* Generic soundness, static form: if the boolean discipline check accepts an access table, every
   well-formed run of every program the table describes is race free. *)
Theorem C35_table_sound : forall tbl singleton owner pown gate,
  well_protected singleton tbl = true ->
  forall tr, wf_locks tr -> wf_edges tr -> conforms tbl singleton owner pown gate tr ->
  race_free tbl tr.
Proof. exact table_sound. Qed.
Print Assumptions C35_table_sound.

(* The instance: the tables regenerated from the Go source pass the check (and the side checks:
   singleton roles are started only by their listed launchers; all anchored structs are present). *)
Theorem C35_instance_ok : c35_instance_ok = true.
Proof. exact c35_instance_ok_true. Qed.
Print Assumptions C35_instance_ok.

(* ... hence (partial: for runs that conform to the tables) no data race on any listed field. *)
Theorem C35_no_data_race_partial : forall owner pown gate tr,
  wf_locks tr -> wf_edges tr ->
  conforms c35_table c35_singleton owner pown gate tr ->
  race_free c35_table tr.
Proof. exact c35_race_free. Qed.
Print Assumptions C35_no_data_race_partial.

(* The defective rows of the pinned tree (cuckooSentCache.kept swapped by Resize; fileConfig hashes
   and callbacks read outside mux; ConfigWatcher.done assigned in monitor; InMemCollector.reload
   created after the callback is registered; RedisPubsubPeers hash/callbacks unguarded;
   SamplerFactory.sharedDynsamplers length read outside the mutex) are rejected
   by the same check: each was repaired by a fix: commit, after which C35_instance_ok holds. *)
Theorem C35_pinned_tree_rows_rejected :
  well_protected c35_singleton (map mk_site pinned_kept) = false /\
  well_protected c35_singleton (map mk_site pinned_filecfg) = false /\
  well_protected c35_singleton (map mk_site pinned_watcher) = false /\
  well_protected c35_singleton (map mk_site pinned_collector_reload) = false /\
  well_protected c35_singleton (map mk_site pinned_peers) = false /\
  well_protected c35_singleton (map mk_site pinned_sampler) = false.
Proof. exact pinned_rows_rejected. Qed.
Print Assumptions C35_pinned_tree_rows_rejected.

(* Non-vacuity: a concrete table and a concrete nine-step run of two goroutines satisfy every
   hypothesis of the table theorem and contain a conflicting pair, which is therefore ordered. *)
Example C35_nonvacuous :
  well_protected demo_single demo_tbl = true /\ wf_locks demo_run /\ wf_edges demo_run /\
  conforms demo_tbl demo_single demo_owner demo_pown demo_gate demo_run /\
  conflict demo_tbl demo_run 3 7 /\ hb demo_run 3 7.
Proof. exact demo_nonvacuous. Qed.

(* ... and the generated table really contains lock-protected conflicting pairs. *)
Example C35_table_nonvacuous : 100 <= lock_protected_pairs c35_table.
Proof. exact c35_lock_pairs_nonzero. Qed.
