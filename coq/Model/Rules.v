(* Executable model of the rules sampler, following the Go code statement by statement.
     config/sampler_config.go : RulesBasedSamplerCondition.Init / setMatchesFunction /
                                setCompareOperators / setMatchStringBasedOperators /
                                setInBasedOperators / setRegexStringMatchOperator
     sample/rules.go          : extractValueFromSpan / conditionMatchesValue / compare /
                                ruleMatchesTrace / ruleMatchesSpanInTrace / GetSampleRate
   (after repo commit "fix: rule conditions on a field absent from the span no longer match ...").
   No proofs here.  Not modelled: CheckNestedFields (gjson; the model is CheckNestedFields=false),
   the dedicated "meta." fields of types.Payload, logging and metrics.

   Operator names, the root prefix, the virtual field name and the reason prefixes are read from
   Gen/GenC08.v (regenerated from the source on every run). *)
From Refinery Require Import Lib.Base Model.Values Gen.GenC08.
Local Open Scope string_scope.
Local Open Scope Z_scope.

Inductive op :=
| OpEq | OpNe | OpGt | OpLt | OpGe | OpLe
| OpStartsWith | OpContains | OpNotContains
| OpExists | OpNotExists | OpHasRoot | OpMatches | OpIn | OpNotIn | OpUnknown.

Definition op_of_string (s : string) : op :=
  if String.eqb s op_EQ then OpEq else if String.eqb s op_NEQ then OpNe
  else if String.eqb s op_GT then OpGt else if String.eqb s op_LT then OpLt
  else if String.eqb s op_GTE then OpGe else if String.eqb s op_LTE then OpLe
  else if String.eqb s op_StartsWith then OpStartsWith
  else if String.eqb s op_Contains then OpContains
  else if String.eqb s op_DoesNotContain then OpNotContains
  else if String.eqb s op_Exists then OpExists
  else if String.eqb s op_NotExists then OpNotExists
  else if String.eqb s op_HasRootSpan then OpHasRoot
  else if String.eqb s op_MatchesRegexp then OpMatches
  else if String.eqb s op_In then OpIn
  else if String.eqb s op_NotIn then OpNotIn
  else OpUnknown.

Inductive dtype := DNone | DString | DInt | DFloat | DBool | DBad.
Definition dtype_of_string (s : string) : dtype :=
  if String.eqb s "" then DNone else if String.eqb s "string" then DString
  else if String.eqb s "int" then DInt else if String.eqb s "float" then DFloat
  else if String.eqb s "bool" then DBool else DBad.

Record cond := {
  c_field : string;          (* Field  *)
  c_fields : list string;    (* Fields *)
  c_opname : string;         (* Operator *)
  c_val : cval;              (* Value *)
  c_dtname : string          (* Datatype *)
}.
Definition c_op (c : cond) : op := op_of_string (c_opname c).
Definition c_dt (c : cond) : dtype := dtype_of_string (c_dtname c).

Definition span := list (string * sval).       (* field -> value; first binding wins *)
Record trace := { t_spans : list span; t_root : option span }.

Definition has_root (t : trace) : bool := match t_root t with Some _ => true | None => false end.

Fixpoint sget (f : string) (sp : span) : option sval :=
  match sp with
  | [] => None
  | (k, v) :: r => if String.eqb f k then Some v else sget f r
  end.

Definition present (ov : option sval) : bool := match ov with Some _ => true | None => false end.
(* a closure called with exists = false receives the value nil *)
Definition vnil (ov : option sval) : sval := match ov with Some v => v | None => SNil end.

Definition is_nil {A} (l : list A) : bool := match l with [] => true | _ => false end.

(* Init(): Field is moved into Fields; both set is an error raised BEFORE setMatchesFunction *)
Definition init_conflict (c : cond) : bool :=
  negb (String.eqb (c_field c) "") && negb (is_nil (c_fields c)).
Definition eff_fields (c : cond) : list string :=
  if String.eqb (c_field c) "" then c_fields c
  else if is_nil (c_fields c) then [c_field c] else c_fields c.

Definition dy_ltb (a b : dy) : bool := match dy_cmp a b with Lt => true | _ => false end.
Definition dy_leb (a b : dy) : bool := match dy_cmp a b with Gt => false | _ => true end.

Inductive cres := CAll | CFail | CAbort.
Record rule := {
  r_name : string;
  r_rate : Z;               (* SampleRate (Go int) *)
  r_drop : bool;
  r_scope : string;
  r_conds : list cond;
  r_sampler : bool          (* rule.Sampler != nil *)
}.
Record outcome := { o_rate : Z; o_keep : bool; o_reason : string; o_key : string }.

Inductive scope := ScSpan | ScTrace | ScInvalid.
Definition scope_of (s : string) : scope :=
  if String.eqb s "span" then ScSpan
  else if String.eqb s "trace" || String.eqb s "" then ScTrace else ScInvalid.

Section Rules.
  Variable fmtv : dy -> string.
  Variable parsef : string -> option dy.
  Variable rx : string -> option (string -> bool).       (* regexp.Compile + MatchString *)

  Notation sstr := (sval_str fmtv).
  Notation cstr := (cval_str fmtv).

  (* ---- setCompareOperators: one arm per datatype and operator, as in the source ---- *)
  Definition arm_string (o : op) (cv : string) : option (option sval -> bool) :=
    match o with
    | OpNe => Some (fun ov => present ov && negb (String.eqb (sstr (vnil ov)) cv))
    | OpEq => Some (fun ov => present ov && String.eqb (sstr (vnil ov)) cv)
    | OpGt => Some (fun ov => present ov && String.ltb cv (sstr (vnil ov)))
    | OpGe => Some (fun ov => present ov && String.leb cv (sstr (vnil ov)))
    | OpLt => Some (fun ov => present ov && String.ltb (sstr (vnil ov)) cv)
    | OpLe => Some (fun ov => present ov && String.leb (sstr (vnil ov)) cv)
    | _ => None
    end.
  Definition with_int (ov : option sval) (k : Z -> bool) : bool :=
    match sval_int (vnil ov) with Some n => present ov && k n | None => false end.
  Definition arm_int (o : op) (cv : Z) : option (option sval -> bool) :=
    match o with
    | OpNe => Some (fun ov => with_int ov (fun n => negb (n =? cv)))
    | OpEq => Some (fun ov => with_int ov (fun n => n =? cv))
    | OpGt => Some (fun ov => with_int ov (fun n => cv <? n))
    | OpGe => Some (fun ov => with_int ov (fun n => cv <=? n))
    | OpLt => Some (fun ov => with_int ov (fun n => n <? cv))
    | OpLe => Some (fun ov => with_int ov (fun n => n <=? cv))
    | _ => None
    end.
  Definition with_float (ov : option sval) (k : dy -> bool) : bool :=
    match sval_float parsef (vnil ov) with Some n => present ov && k n | None => false end.
  Definition arm_float (o : op) (cv : dy) : option (option sval -> bool) :=
    match o with
    | OpNe => Some (fun ov => with_float ov (fun n => negb (dy_eqb n cv)))
    | OpEq => Some (fun ov => with_float ov (fun n => dy_eqb n cv))
    | OpGt => Some (fun ov => with_float ov (fun n => dy_ltb cv n))
    | OpGe => Some (fun ov => with_float ov (fun n => dy_leb cv n))
    | OpLt => Some (fun ov => with_float ov (fun n => dy_ltb n cv))
    | OpLe => Some (fun ov => with_float ov (fun n => dy_leb n cv))
    | _ => None
    end.
  Definition arm_bool (o : op) (cv : bool) : option (option sval -> bool) :=
    match o with
    | OpNe => Some (fun ov => present ov && negb (Bool.eqb (sval_bool fmtv (vnil ov)) cv))
    | OpEq => Some (fun ov => present ov && Bool.eqb (sval_bool fmtv (vnil ov)) cv)
    | _ => None                       (* no arm: Matches stays nil, no error *)
    end.

  Definition scalar_of (v : cval) : option cscalar :=
    match v with CScalar x => Some x | CList _ => None end.
  Definition cval_int (v : cval) : option Z :=
    match v with CScalar x => cscalar_int x | CList _ => None end.
  Definition cval_float (v : cval) : option dy :=
    match v with CScalar x => cscalar_float parsef x | CList _ => None end.

  Definition set_compare (c : cond) : option (option sval -> bool) :=
    match c_dt c with
    | DString => arm_string (c_op c) (cstr (c_val c))
    | DInt => match cval_int (c_val c) with Some n => arm_int (c_op c) n | None => None end
    | DFloat => match cval_float (c_val c) with Some f => arm_float (c_op c) f | None => None end
    | DBool => arm_bool (c_op c) (cval_bool fmtv (c_val c))
    | DNone => None
    | DBad => None
    end.

  (* ---- setMatchStringBasedOperators ---- *)
  Definition set_stringop (c : cond) : option (option sval -> bool) :=
    let cv := cstr (c_val c) in
    match c_op c with
    | OpStartsWith => Some (fun ov => present ov && String.prefix cv (sstr (vnil ov)))
    | OpContains => Some (fun ov => present ov && str_contains cv (sstr (vnil ov)))
    | OpNotContains => Some (fun ov => present ov && negb (str_contains cv (sstr (vnil ov))))
    | _ => None
    end.

  (* ---- setInBasedOperators ---- *)
  Definition in_items (v : cval) : option (list cscalar) :=
    match v with
    | CList l => Some l
    | CScalar (CStr s) => Some [CStr s]
    | CScalar (CInt z) => Some [CInt z]
    | CScalar (CF64 d) => Some [CF64 d]
    | _ => None                                   (* "value must be a list of scalars" *)
    end.
  Fixpoint filter_some {A} (l : list (option A)) : list A :=
    match l with
    | [] => []
    | Some x :: r => x :: filter_some r
    | None :: r => filter_some r
    end.
  Definition in_matches (dt : dtype) (items : list cscalar) : option (option sval -> bool) :=
    match dt with
    | DString | DNone =>
        let vs := map (cscalar_str fmtv) items in
        Some (fun ov => present ov && str_mem (sstr (vnil ov)) vs)
    | DInt =>
        let vs := filter_some (map cscalar_int items) in
        Some (fun ov => match sval_int (vnil ov) with
                        | Some i => existsb (Z.eqb i) vs | None => false end)
    | DFloat =>
        let vs := filter_some (map (cscalar_float parsef) items) in
        Some (fun ov => match sval_float parsef (vnil ov) with
                        | Some f => existsb (dy_eqb f) vs | None => false end)
    | DBool => None                               (* error *)
    | DBad => None      (* Go: `in` leaves Matches nil; `not-in` installs a closure over a nil
                           func and panics when evaluated — outside the model (rejected by
                           config validation), reported in the notes *)
    end.
  Definition set_in (c : cond) : option (option sval -> bool) :=
    match in_items (c_val c) with
    | None => None
    | Some items =>
        match in_matches (c_dt c) items with
        | None => None
        | Some m =>
            match c_op c with
            | OpIn => Some m
            | OpNotIn => Some (fun ov => present ov && negb (m ov))
            | _ => None
            end
        end
    end.

  (* ---- setRegexStringMatchOperator ---- *)
  Definition set_regex (c : cond) : option (option sval -> bool) :=
    match rx (cstr (c_val c)) with
    | None => None
    | Some f => Some (fun ov => present ov && f (sstr (vnil ov)))
    end.

  (* ---- Init + setMatchesFunction: the Matches closure, None = nil ---- *)
  Definition matcher (c : cond) : option (option sval -> bool) :=
    if init_conflict c then None
    else match c_op c with
         | OpExists => Some (fun ov => present ov)
         | OpNotExists => Some (fun ov => negb (present ov))
         | OpEq | OpNe | OpGt | OpLt | OpGe | OpLe => set_compare c
         | OpStartsWith | OpContains | OpNotContains => set_stringop c
         | OpIn | OpNotIn => set_in c
         | OpMatches => set_regex c
         | OpHasRoot => None
         | OpUnknown => None
         end.

  (* ---- conditionMatchesValue (used when Matches is nil) ---- *)
  Definition cmp_is (r : option comparison) (f : comparison -> bool) : bool :=
    match r with Some x => f x | None => false end.
  Definition cond_untyped (c : cond) (ov : option sval) : bool :=
    match ov with
    | Some v =>
        let r := compare_untyped v (c_val c) in
        match c_op c with
        | OpExists => true
        | OpNe => cmp_is r (fun x => match x with Eq => false | _ => true end)
        | OpEq => cmp_is r (fun x => match x with Eq => true | _ => false end)
        | OpGt => cmp_is r (fun x => match x with Gt => true | _ => false end)
        | OpGe => cmp_is r (fun x => match x with Lt => false | _ => true end)
        | OpLt => cmp_is r (fun x => match x with Lt => true | _ => false end)
        | OpLe => cmp_is r (fun x => match x with Gt => false | _ => true end)
        | _ => false
        end
    | None =>
        match c_op c with OpNotExists => true | _ => false end
    end.

  (* what both scope loops do with one (condition, extracted value) *)
  Definition cmatch (c : cond) (ov : option sval) : bool :=
    match matcher c with
    | Some f => f ov
    | None => cond_untyped c ov
    end.

  (* ---- extractValueFromSpan: (value/exists, checkedOnlyRoot) ---- *)
  Definition strip_root (f : string) : option string :=
    if String.prefix root_prefix f
    then Some (substring (String.length root_prefix)
                         (String.length f - String.length root_prefix) f)
    else None.

  Fixpoint extract_loop (t : trace) (sp : span) (fs : list string) (cor : bool)
    : option sval * bool :=
    match fs with
    | [] => (None, false)
    | f :: r =>
        match strip_root f with
        | Some f' =>
            match t_root t with
            | Some rt =>
                match sget f' rt with
                | Some v => (Some v, cor)
                | None => extract_loop t sp r cor
                end
            | None => extract_loop t sp r cor              (* continue *)
            end
        | None =>
            match sget f sp with
            | Some v => (Some v, false)
            | None => extract_loop t sp r false
            end
        end
    end.

  Definition is_virtual (c : cond) : bool := String.eqb (c_field c) num_descendants.

  Definition extract (t : trace) (sp : span) (c : cond) : option sval * bool :=
    if is_virtual c then (Some (SInt (Z.of_nat (length (t_spans t)))), true)
    else extract_loop t sp (eff_fields c) true.

  (* ---- ruleMatchesTrace ---- *)
  Fixpoint cond_span_loop (t : trace) (c : cond) (spans : list span) : bool :=
    match spans with
    | [] => false
    | sp :: r =>
        let '(ov, cor) := extract t sp c in
        if cmatch c ov then true
        else if cor then false                (* checkedOnlyRoot: break *)
        else cond_span_loop t c r
    end.

  Definition is_hasroot (c : cond) : bool := String.eqb (c_opname c) op_HasRootSpan.

  (* None = the early `return false`; Some k = value of `matched` after the loop *)
  Fixpoint trace_conds (t : trace) (conds : list cond) : option nat :=
    match conds with
    | [] => Some O
    | c :: r =>
        if is_hasroot c then
          if Bool.eqb (has_root t) (cval_bool fmtv (c_val c))
          then option_map S (trace_conds t r)
          else None
        else
          let m := cond_span_loop t c (t_spans t) in
          option_map (fun k => if m then S k else k) (trace_conds t r)
    end.

  Definition rule_matches_trace (t : trace) (conds : list cond) : bool :=
    match conds with
    | [] => true                                     (* Conditions == nil *)
    | _ => match trace_conds t conds with
           | Some k => Nat.eqb k (length conds)
           | None => false
           end
    end.

  (* ---- ruleMatchesSpanInTrace ---- *)
  Fixpoint span_conds (t : trace) (sp : span) (conds : list cond) : cres :=
    match conds with
    | [] => CAll
    | c :: r =>
        let '(ov, cor) := extract t sp c in
        if cmatch c ov then span_conds t sp r
        else if cor then CAbort              (* return false *)
        else CFail                           (* break *)
    end.
  Fixpoint span_loop (t : trace) (conds : list cond) (spans : list span) : bool :=
    match spans with
    | [] => false
    | sp :: r =>
        match span_conds t sp conds with
        | CAll => true
        | CAbort => false
        | CFail => span_loop t conds r
        end
    end.
  Definition rule_matches_span (t : trace) (conds : list cond) : bool :=
    match conds with
    | [] => true
    | _ => span_loop t conds (t_spans t)
    end.

  (* ---- GetSampleRate ---- *)

  Definition rule_matched (t : trace) (r : rule) : bool * string :=
    match scope_of (r_scope r) with
    | ScSpan => (rule_matches_span t (r_conds r), reason_span)
    | ScTrace => (rule_matches_trace t (r_conds r), reason_trace)
    | ScInvalid => (true, reason_invalid)
    end.

  (* oracles: ds i = what the downstream sampler of rule i returned (None: no such sampler);
     draw i = the value rand.Intn(SampleRate) returned for rule i *)
  Variable ds : nat -> option outcome.
  Variable draw : nat -> Z.

  Definition apply_rule (i : nat) (r : rule) (pre : string) : outcome :=
    if r_sampler r then
      match ds i with
      | None => {| o_rate := 1; o_keep := true;
                   o_reason := pre ++ reason_bad_rule ++ r_name r; o_key := "" |}
      | Some d => {| o_rate := o_rate d; o_keep := o_keep d;
                     o_reason := pre ++ r_name r ++ ":" ++ o_reason d; o_key := o_key d |}
      end
    else
      {| o_rate := (r_rate r) mod 2 ^ 64;                          (* uint(rule.SampleRate) *)
         o_keep := negb (r_drop r) && (0 <? r_rate r) && (draw i =? 0);
         o_reason := pre ++ r_name r; o_key := "" |}.

  Definition default_outcome : outcome :=
    {| o_rate := 1; o_keep := true; o_reason := reason_nomatch; o_key := "" |}.

  Fixpoint run_rules (t : trace) (i : nat) (rules : list rule) : outcome :=
    match rules with
    | [] => default_outcome
    | r :: rest =>
        let '(m, pre) := rule_matched t r in
        if m then apply_rule i r pre else run_rules t (S i) rest
    end.
End Rules.
