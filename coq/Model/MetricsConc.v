(* Interleaving model of one value cell of MultiMetrics (one metric name, counters / up-down counters):
   the lookup-then-update of Increment / Count / Up / Down as atomic steps, as in the code

     if val, ok := m.counters.Load(name); ok { val.Add(n); return }       step 1: Load      (hit or miss)
     val, _ := m.counters.LoadOrStore(name, &atomic.Uint64{})             step 2: LoadOrStore returns the WINNER
     val.Add(n)                                                           step 3: Add on the winner

   A cell, once in the map, is never replaced (after the fix Register uses LoadOrStore too), so the
   pointer a goroutine holds is the cell of the map: the state of the name is just [option Z].
   [buggy = true] is the variant in which the slow path publishes a freshly created cell pre-loaded
   with n through LoadOrStore and ignores whether it was stored: when somebody else won, n is lost. *)
From Refinery Require Import Lib.Base.

Inductive cop := CAdd (n : Z) | CReg | CGet.
(* where a goroutine is inside its current operation *)
Inductive pc :=
| Idle
| Hit (n : Z)     (* Load found the cell; about to Add n *)
| Miss (n : Z)    (* Load found nothing; about to LoadOrStore *)
| Won (n : Z).    (* holds the cell LoadOrStore returned; about to Add n *)
Record thread := { t_pc : pc; t_todo : list cop; t_reads : list Z }.
Record conf := { cell : option Z; threads : list thread }.

Definition cval (c : option Z) : Z := match c with Some v => v | None => 0 end.
Definition present (c : option Z) : option Z := match c with Some v => Some v | None => Some 0 end.

(* one atomic step of a goroutine *)
Definition tstep (buggy : bool) (c : option Z) (t : thread) : option Z * thread :=
  match t_pc t with
  | Hit n | Won n => (Some (cval c + n), {| t_pc := Idle; t_todo := t_todo t; t_reads := t_reads t |})
  | Miss n =>
      if buggy
      then (match c with None => Some n | Some v => Some v end,       (* LoadOrStore(name, fresh(n)); result ignored *)
            {| t_pc := Idle; t_todo := t_todo t; t_reads := t_reads t |})
      else (present c, {| t_pc := Won n; t_todo := t_todo t; t_reads := t_reads t |})
  | Idle =>
      match t_todo t with
      | [] => (c, t)
      | CAdd n :: r => (c, {| t_pc := match c with Some _ => Hit n | None => Miss n end; t_todo := r; t_reads := t_reads t |})
      | CReg :: r => (present c, {| t_pc := Idle; t_todo := r; t_reads := t_reads t |})
      | CGet :: r => (c, {| t_pc := Idle; t_todo := r; t_reads := cval c :: t_reads t |})
      end
  end.

Fixpoint step_nth (buggy : bool) (c : option Z) (ts : list thread) (i : nat) : option Z * list thread :=
  match ts, i with
  | [], _ => (c, [])
  | t :: r, O => let '(c', t') := tstep buggy c t in (c', t' :: r)
  | t :: r, S j => let '(c', r') := step_nth buggy c r j in (c', t :: r')
  end.

(* a schedule says which goroutine takes the next atomic step *)
Fixpoint run (buggy : bool) (cf : conf) (sched : list nat) : conf :=
  match sched with
  | [] => cf
  | i :: r => let '(c', ts') := step_nth buggy (cell cf) (threads cf) i in
              run buggy {| cell := c'; threads := ts' |} r
  end.

Definition start (progs : list (list cop)) : conf :=
  {| cell := None; threads := map (fun p => {| t_pc := Idle; t_todo := p; t_reads := [] |}) progs |}.

(* increments not yet applied to the cell: the one in flight plus those still to be issued *)
Definition pend (p : pc) : Z := match p with Idle => 0 | Hit n | Miss n | Won n => n end.
Fixpoint todo_sum (l : list cop) : Z :=
  match l with [] => 0 | CAdd n :: r => n + todo_sum r | _ :: r => todo_sum r end.
Definition outstanding_t (t : thread) : Z := pend (t_pc t) + todo_sum (t_todo t).
Definition outstanding (ts : list thread) : Z := fold_right (fun t acc => outstanding_t t + acc) 0 ts.
Definition total (progs : list (list cop)) : Z := fold_right (fun p acc => todo_sum p + acc) 0 progs.
Definition finished (cf : conf) : bool :=
  forallb (fun t => match t_pc t, t_todo t with Idle, [] => true | _, _ => false end) (threads cf).
