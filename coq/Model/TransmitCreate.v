(* EnqueueEvent's batch lookup for ONE destination key, step-wise (transmit/direct_transmit.go):
     Start e   --(batchMutex.RLock: eventBatches[key])-->  Got e b   if the key is present
                                                           Missed e  otherwise
     Missed e  --(batchMutex.Lock: look again; create and store only if still absent)-->  Got e b
     Got e b   --(batch.mutex.Lock: append)-->  Done
   Any number of goroutines, any interleaving of these atomic steps.  A batch that is not the one stored in
   the map is never seen by the ticker or by Stop: its events would never be sent.
   recheck = false is the code without the second look under the write lock. *)
From Refinery Require Import Lib.Base.

Inductive cpc := CStart (e : N) | CMissed (e : N) | CGot (e : N) (b : nat) | CDone.
Record cstate := {
  slot : option nat;            (* eventBatches[key]: index of the stored batch *)
  made : list (list N);         (* every batch ever created, with the events appended to it *)
  goers : list cpc
}.
Fixpoint cupd {A} (t : nat) (x : A) (l : list A) : list A :=
  match l, t with
  | [], _ => []
  | _ :: r, O => x :: r
  | y :: r, S t' => y :: cupd t' x r
  end.
Definition add_to (b : nat) (e : N) (l : list (list N)) : list (list N) := cupd b (nth b l [] ++ [e]) l.

Definition cstep (recheck : bool) (s : cstate) (t : nat) : cstate :=
  match nth t (goers s) CDone with
  | CStart e =>
      {| slot := slot s; made := made s;
         goers := cupd t (match slot s with Some b => CGot e b | None => CMissed e end) (goers s) |}
  | CMissed e =>
      match (if recheck then slot s else None) with
      | Some b => {| slot := slot s; made := made s; goers := cupd t (CGot e b) (goers s) |}
      | None => let nb := length (made s) in
                {| slot := Some nb; made := made s ++ [[]]; goers := cupd t (CGot e nb) (goers s) |}
      end
  | CGot e b => {| slot := slot s; made := add_to b e (made s); goers := cupd t CDone (goers s) |}
  | CDone => s
  end.
Definition crun (recheck : bool) (s : cstate) (sched : list nat) : cstate := fold_left (cstep recheck) sched s.
Definition cinit (evs : list N) : cstate := {| slot := None; made := []; goers := map CStart evs |}.
Definition all_done (s : cstate) : bool := forallb (fun p => match p with CDone => true | _ => false end) (goers s).
(* the events the ticker / Stop can reach *)
Definition reachable (s : cstate) : list N := match slot s with Some b => nth b (made s) [] | None => [] end.
