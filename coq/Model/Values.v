(* Values seen by the samplers and the Go conversions applied to them.
   (config/sampler_config.go: convertToString / tryConvertToInt / tryConvertToFloat /
    TryConvertToBool;  sample/rules.go: compare)

   Floats.  A finite float64 is the dyadic rational  m * 2^e  ([Dy m e]) in canonical form
   (m odd, or m = 0 and e = 0), so numeric equality is syntactic equality and every comparison is
   exact integer arithmetic.  NaN, +-Inf and negative zero are outside the model (the drivers never
   produce them; JSON cannot carry the first three at all).
   Three library functions are NOT modelled but passed in as oracles (function parameters,
   instantiated in the correspondence by tables filled from the real functions):
     fmtv   : the text fmt.Sprintf("%v", float64)           (shortest round-trip decimal)
     parsef : strconv.ParseFloat(s, 64) on span / config strings (None = error)
     rx     : regexp.Compile(pattern) (None = error) and MatchString
   Go `int` is 64 bits (amd64); float64 -> int conversion of an out-of-range value yields
   -2^63 (amd64 CVTTSD2SQ) — both are stated platform assumptions. *)
From Coq Require Import DecimalString.
From Refinery Require Import Lib.Base.
Local Open Scope string_scope.
Local Open Scope Z_scope.

(* ---------- dyadic floats ---------- *)
Inductive dy := Dy (m e : Z).

Fixpoint pos_strip (p : positive) (e : Z) : positive * Z :=
  match p with
  | xO q => pos_strip q (e + 1)
  | _ => (p, e)
  end.

Definition dy_norm (m e : Z) : dy :=
  match m with
  | Z0 => Dy 0 0
  | Zpos p => let '(q, e') := pos_strip p e in Dy (Zpos q) e'
  | Zneg p => let '(q, e') := pos_strip p e in Dy (Zneg q) e'
  end.

(* exact comparison of m1*2^e1 with m2*2^e2 *)
Definition dy_cmp (a b : dy) : comparison :=
  match a, b with
  | Dy m1 e1, Dy m2 e2 =>
      let e := Z.min e1 e2 in
      Z.compare (m1 * 2 ^ (e1 - e)) (m2 * 2 ^ (e2 - e))
  end.
(* Go's == on float64: numeric equality (no canonical-form assumption needed) *)
Definition dy_eqb (a b : dy) : bool := match dy_cmp a b with Eq => true | _ => false end.

(* truncation toward zero, then Go's int(float64) on amd64 *)
Definition dy_trunc (a : dy) : Z :=
  match a with
  | Dy m e => if 0 <=? e then m * 2 ^ e else Z.quot m (2 ^ (- e))
  end.
Definition int_min : Z := - 2 ^ 63.
Definition int_max : Z := 2 ^ 63 - 1.
Definition in_int64 (z : Z) : bool := (int_min <=? z) && (z <=? int_max).
Definition f2i (a : dy) : Z := let t := dy_trunc a in if in_int64 t then t else int_min.

(* float64(int64): round to nearest, ties to even, 53-bit significand *)
Definition round53 (z : Z) : dy :=
  let a := Z.abs z in
  if a <? 2 ^ 53 then dy_norm z 0
  else
    let k := Z.log2 a + 1 - 53 in
    let q := a / 2 ^ k in
    let r := a mod 2 ^ k in
    let half := 2 ^ (k - 1) in
    let q' := if (half <? r) || ((r =? half) && Z.odd q) then q + 1 else q in
    dy_norm (Z.sgn z * q') k.

Definition dy_is_int (a : dy) : bool := match a with Dy _ e => 0 <=? e end.

(* ---------- decimal text of integers; strconv.Atoi ---------- *)
Definition dec (z : Z) : string := NilZero.string_of_int (Z.to_int z).

Definition digit_of (a : ascii) : option Z :=
  let n := N_of_ascii a in
  if ((48 <=? n) && (n <=? 57))%N then Some (Z.of_N (n - 48)) else None.

Fixpoint digits_val (s : string) (acc : Z) : option Z :=
  match s with
  | EmptyString => Some acc
  | String a r => match digit_of a with
                  | Some d => digits_val r (acc * 10 + d)
                  | None => None
                  end
  end.

Definition atoi (s : string) : option Z :=
  let v :=
    match s with
    | EmptyString => None
    | String a r =>
        if Ascii.eqb a "+"%char then (match r with EmptyString => None | _ => digits_val r 0 end)
        else if Ascii.eqb a "-"%char then
          (match r with EmptyString => None | _ => option_map Z.opp (digits_val r 0) end)
        else digits_val s 0
    end in
  match v with
  | Some z => if in_int64 z then Some z else None
  | None => None
  end.

(* ---------- string helpers (Go: strings.HasPrefix / Contains / Compare, bytewise) ---------- *)
Fixpoint str_contains (sub s : string) : bool :=
  String.prefix sub s ||
  match s with
  | EmptyString => false
  | String _ r => str_contains sub r
  end.

Definition str_has_suffix (suf s : string) : bool :=
  let ls := String.length s in let lf := String.length suf in
  (lf <=? ls)%nat && String.eqb (substring (ls - lf) lf s) suf.

Fixpoint str_join (sep : string) (l : list string) : string :=
  match l with
  | [] => ""
  | [x] => x
  | x :: r => x ++ sep ++ str_join sep r
  end.

Definition str_mem (s : string) (l : list string) : bool := existsb (String.eqb s) l.

(* ---------- values ---------- *)
(* what Payload.Get hands to a sampler *)
Inductive sval :=
| SInt (z : Z)            (* int64 *)
| SF64 (d : dy)           (* float64 *)
| SStr (s : string)
| SBool (b : bool)
| SNil                    (* field present with a nil value *)
| SOther (txt : string).  (* map / array / bytes / time ...: only its %v text matters *)

(* scalar condition values as the YAML / struct config delivers them *)
Inductive cscalar :=
| CInt (z : Z)            (* Go int *)
| CInt64 (z : Z)
| CF64 (d : dy)
| CStr (s : string)
| CBool (b : bool)
| CNil
| COther (txt : string).
Inductive cval := CScalar (c : cscalar) | CList (l : list cscalar).

Definition bool_str (b : bool) : string := if b then "true" else "false".

Section Oracles.
  Variable fmtv : dy -> string.
  Variable parsef : string -> option dy.

  (* convertToString on a float64: a whole number below 2^63 in magnitude is printed as that
     integer (repo commit "fix: whole numbers stringify the same ..."), anything else with %v *)
  Definition f64_str (d : dy) : string :=
    let t := dy_trunc d in
    if dy_eqb d (Dy t 0) && (Z.abs t <? 2 ^ 63) then dec t else fmtv d.

  (* config.convertToString *)
  Definition sval_str (v : sval) : string :=
    match v with
    | SInt z => dec z
    | SF64 d => f64_str d
    | SStr s => s
    | SBool b => bool_str b
    | SNil => "<nil>"
    | SOther t => t
    end.
  Definition cscalar_str (c : cscalar) : string :=
    match c with
    | CInt z | CInt64 z => dec z
    | CF64 d => f64_str d
    | CStr s => s
    | CBool b => bool_str b
    | CNil => "<nil>"
    | COther t => t
    end.
  (* an element inside a list printed by %v (no whole-number special case there) *)
  Definition cscalar_vstr (c : cscalar) : string :=
    match c with CF64 d => fmtv d | _ => cscalar_str c end.
  Definition cval_str (c : cval) : string :=
    match c with
    | CScalar x => cscalar_str x
    | CList l => "[" ++ str_join " " (map cscalar_vstr l) ++ "]"
    end.

  (* tryConvertToInt *)
  Definition sval_int (v : sval) : option Z :=
    match v with
    | SInt z => Some z
    | SF64 d => Some (f2i d)
    | SStr s => atoi s
    | _ => None
    end.
  Definition cscalar_int (c : cscalar) : option Z :=
    match c with
    | CInt z | CInt64 z => Some z
    | CF64 d => Some (f2i d)
    | CStr s => atoi s
    | _ => None
    end.

  (* tryConvertToFloat *)
  Definition sval_float (v : sval) : option dy :=
    match v with
    | SF64 d => Some d
    | SInt z => Some (round53 z)
    | SStr s => parsef s
    | _ => None
    end.
  Definition cscalar_float (c : cscalar) : option dy :=
    match c with
    | CF64 d => Some d
    | CInt z | CInt64 z => Some (round53 z)
    | CStr s => parsef s
    | _ => None
    end.

  (* TryConvertToBool = strconv.ParseBool(fmt.Sprintf("%v", v)), errors read as false *)
  Definition str_bool (s : string) : bool := str_mem s ["1"; "t"; "T"; "TRUE"; "true"; "True"].
  Definition sval_bool (v : sval) : bool := str_bool (sval_str v).
  Definition cval_bool (c : cval) : bool := str_bool (cval_str c).

  (* sample/rules.go compare(a, b): Some ordering, or None for "not comparable" *)
  Definition compare_untyped (a : sval) (b : cval) : option comparison :=
    match a, b with
    | SNil, CScalar CNil => Some Eq
    | SNil, _ => Some Lt
    | _, CScalar CNil => Some Gt
    | SInt x, CScalar (CInt y) | SInt x, CScalar (CInt64 y) => Some (Z.compare x y)
    | SInt x, CScalar (CF64 y) => Some (dy_cmp (round53 x) y)
    | SF64 x, CScalar (CInt y) | SF64 x, CScalar (CInt64 y) => Some (dy_cmp x (Dy y 0))  (* compareFloatToInt: exact *)
    | SF64 x, CScalar (CF64 y) => Some (dy_cmp x y)
    | SBool x, CScalar (CBool y) => Some (Bool.compare x y)
    | SStr x, CScalar (CStr y) => Some (String.compare x y)
    | _, _ => None
    end.
End Oracles.
