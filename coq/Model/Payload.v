(* Executable model of types/payload.go (+ route/batched_event.go, transmit batchedEvent.MarshalMsg) at
   msgpack-AST level.  No proofs here.

   A client payload is a list of fields (key bytes, value) in wire order.  Key kind (str / bin) is not
   modelled: msgp.ReadMapKeyZC accepts both and every re-encoding writes str keys.

   Go                                                    model
   --                                                    -----
   msgp.ReadIntfBytes / vmihailenco loose decoding       the value AST itself / [loosen]
   Payload{msgpData, memoizedFields, missingFields,      payload{p_raw, p_memo, p_missing, p_meta}
           Meta* struct fields}
   extractCriticalFieldsFromBytes                        extract
   ExtractMetadata (memoised map)                        extract_memo
   MemoizeFields / Set                                   memoize / pset
   addIncomingUserAgent                                  add_ua
   MarshalMsg                                            marshal
   msgp.AppendIntf on a memoised value                   reenc

   Tables and switches come from Gen/GenC20.v (regenerated from the source on every run):
   metadata_fields (reserved names with their expected type) and the three facts about how MarshalMsg
   re-encodes memoised values. *)
From Refinery Require Import Lib.Base Lib.SMap_route2.
From Refinery Require Import Gen.GenC20.

Inductive value : Type :=
| VNil
| VBool (b : bool)
| VInt (z : Z)                     (* wire family "int": fixint, int8..int64 *)
| VUint (n : N)                    (* wire family "uint": uint8..uint64 *)
| VF32 (bits : N)
| VF64 (bits : N)
| VStr (s : string)
| VBin (s : string)
| VTime (sec : Z) (nsec : N)       (* standard msgpack timestamp, ext -1, any of its three widths *)
| VExt (ty : Z) (data : string)    (* any other extension (only ever observed, never generated) *)
| VArr (l : list value)
| VMap (l : list (string * value)).

Definition fields := list (string * value).

(* ---------- reserved names ---------- *)
Inductive mtype := MStr | MBool | MInt.
Definition mtype_of (s : string) : option mtype :=
  if String.eqb s "string" then Some MStr
  else if String.eqb s "bool" then Some MBool
  else if String.eqb s "int64" then Some MInt else None.

Definition reserved_in (tbl : list (string * string)) (k : string) : bool := shas k tbl.
Definition reserved (k : string) : bool := reserved_in metadata_fields k.
Definition meta_type (k : string) : option mtype :=
  match slookup k metadata_fields with Some t => mtype_of t | None => None end.

(* how a memoised time.Time is written back: the standard ext -1 only if MarshalMsg goes through the
   helper that uses AppendTimeExt at every depth *)
Definition time_standard : bool :=
  marshal_uses_time_safe_append && append_time_is_standard_ext && append_recurses_into_containers.

(* ---------- decoders ---------- *)
(* vmihailenco/msgpack with UseLooseInterfaceDecoding (the msgpack /1/events path):
   bin -> string, float32 -> float64 ([widen] is Go's float64(float32), supplied by the harness) *)
Section Loosen.
  Variable widen : N -> N.
  Fixpoint loosen (v : value) : value :=
    match v with
    | VBin s => VStr s
    | VF32 b => VF64 (widen b)
    | VArr l => VArr (map loosen l)
    | VMap l => VMap (map (fun kv => (fst kv, loosen (snd kv))) l)
    | _ => v
    end.
End Loosen.

(* ---------- msgp.AppendIntf on a decoded value ---------- *)
Definition tiny_time_ext : Z := 5.
Fixpoint reenc (std : bool) (v : value) : value :=
  match v with
  | VUint n => if (n <? 128)%N then VInt (Z.of_N n) else VUint n     (* AppendUint64: <= 127 is a fixint *)
  | VTime s n => if std then VTime s n else VExt tiny_time_ext EmptyString   (* AppendTime: ext 5 *)
  | VArr l => VArr (map (reenc std) l)
  | VMap l => VMap (map (fun kv => (fst kv, reenc std (snd kv))) l)
  | _ => v
  end.

(* the value a field carries, abstracting from the width chosen on the wire inside one msgpack type:
   integer family (int / uint codes) by value, float family by value ([widen] = exact float32 -> float64) *)
Section Canon.
  Variable widen : N -> N.
  Fixpoint canon (v : value) : value :=
    match v with
    | VUint n => VInt (Z.of_N n)
    | VF32 b => VF64 (widen b)
    | VArr l => VArr (map canon l)
    | VMap l => VMap (map (fun kv => (fst kv, canon (snd kv))) l)
    | _ => v
    end.
End Canon.

(* msgpack bin -> str at every depth (what the loose decoder of the msgpack /1/events path does) *)
Fixpoint bin2str (v : value) : value :=
  match v with
  | VBin s => VStr s
  | VArr l => VArr (map bin2str l)
  | VMap l => VMap (map (fun kv => (fst kv, bin2str (snd kv))) l)
  | _ => v
  end.

Fixpoint has_bin (v : value) : bool :=
  match v with
  | VBin _ => true
  | VArr l => existsb has_bin l
  | VMap l => existsb (fun kv => has_bin (snd kv)) l
  | _ => false
  end.

(* ---------- the payload ---------- *)
Record payload := {
  p_raw : fields;            (* msgpData, wire order *)
  p_memo : fields;           (* memoizedFields (a Go map: order is not an observable) *)
  p_missing : list string;
  p_meta : fields            (* the Meta* struct fields that hold a value, by reserved name *)
}.

Definition empty_payload : payload := {| p_raw := []; p_memo := []; p_missing := []; p_meta := [] |}.
Definition with_memo (p : payload) m := {| p_raw := p_raw p; p_memo := m; p_missing := p_missing p; p_meta := p_meta p |}.
Definition with_meta (p : payload) m := {| p_raw := p_raw p; p_memo := p_memo p; p_missing := p_missing p; p_meta := m |}.
Definition with_missing (p : payload) m := {| p_raw := p_raw p; p_memo := p_memo p; p_missing := m; p_meta := p_meta p |}.

Definition meta_str (k : string) (p : payload) : string :=
  match slookup k (p_meta p) with Some (VStr s) => s | _ => EmptyString end.
Definition is_empty_str (s : string) : bool := match s with EmptyString => true | _ => false end.

(* metadataField.set : typed assignment, silently ignored on a type mismatch.
   int64 fields accept only a Go int64, i.e. a value of the int wire family. *)
Definition meta_assign (t : mtype) (k : string) (v : value) (p : payload) : payload :=
  match t, v with
  | MStr, VStr _ | MBool, VBool _ | MInt, VInt _ => with_meta p (sset k v (p_meta p))
  | _, _ => p
  end.

(* Payload.Set *)
Definition pset (k : string) (v : value) (p : payload) : payload :=
  match slookup k metadata_fields with
  | Some t => match mtype_of t with Some mt => meta_assign mt k v p | None => p end
  | None => with_memo p (sset k v (p_memo p))
  end.

Definition root_default (p : payload) : payload :=
  if shas meta_refinery_root (p_meta p) then p
  else with_meta p (sset meta_refinery_root (VBool true) (p_meta p)).
Definition root_false (p : payload) : payload :=
  with_meta p (sset meta_refinery_root (VBool false) (p_meta p)).
Definition log_unsets_root (p : payload) : payload :=
  if String.eqb (meta_str meta_signal_type p) "log"
  then with_meta p (sremove meta_refinery_root (p_meta p)) else p.

(* ---------- extractCriticalFieldsFromBytes ---------- *)
Record xcfg := { trace_names : list string; parent_names : list string; key_fields : list string }.

Definition wire_type_ok (t : mtype) (v : value) : bool :=
  match t, v with
  | MStr, (VStr _ | VBin _) => true
  | MBool, VBool _ => true
  | MInt, (VInt _ | VUint _) => true
  | _, _ => false
  end.

Definition max_int64 : Z := 9223372036854775807.

(* field.unmarshalMsgp after the type guard; None = the reader fails and the whole event is rejected
   (ReadStringBytes on a bin value, ReadInt64Bytes on a uint above MaxInt64) *)
Definition meta_unmarshal (t : mtype) (v : value) : option value :=
  match t, v with
  | MStr, VStr s => Some (VStr s)
  | MBool, VBool b => Some (VBool b)
  | MInt, VInt z => Some (VInt z)
  | MInt, VUint n => if (Z.of_N n <=? max_int64) then Some (VInt (Z.of_N n)) else None
  | _, _ => None
  end.

(* one map entry; state = (payload, keysFound) *)
Definition extract_step (c : xcfg) (keys : list string) (st : payload * nat) (kv : string * value)
  : option (payload * nat) :=
  let '(p, found) := st in
  let '(k, v) := kv in
  (* reserved name with the expected wire type *)
  let as_meta :=
    if sprefix "meta." k then
      match meta_type k with
      | Some t => if wire_type_ok t v then Some t else None
      | None => None
      end
    else None in
  match as_meta with
  | Some t => match meta_unmarshal t v with
              | Some mv => Some (with_meta p (sset k mv (p_meta p)), found)
              | None => None
              end
  | None =>
    (* trace id / parent id fields: string values only *)
    let tp := match v with
              | VStr s =>
                  if smem k (trace_names c) && is_empty_str (meta_str meta_trace_id p)
                  then Some (with_meta p (sset meta_trace_id (VStr s) (p_meta p)))
                  else if smem k (parent_names c)
                  then Some (if is_empty_str s then p else root_false p)
                  else None
              | _ => None
              end in
    match tp with
    | Some p' => Some (p', found)
    | None =>
      if (found <? length keys)%nat && smem k keys && negb (shas k (p_memo p))
      then Some (pset k v p, S found)
      else Some (p, found)
    end
  end.

Fixpoint extract_loop (c : xcfg) (keys : list string) (st : payload * nat) (fs : fields)
  : option (payload * nat) :=
  match fs with
  | [] => Some st
  | kv :: r => match extract_step c keys st kv with
               | Some st' => extract_loop c keys st' r
               | None => None
               end
  end.

Definition add_missing (keys : list string) (p : payload) : payload :=
  with_missing p (p_missing p ++ filter (fun k => negb (shas k (p_memo p))) keys).

(* [keys] = the sampling key fields handed to this call (nil for UnmarshalMsg / metadata-only) *)
Definition extract (c : xcfg) (keys : list string) (fs : fields) (p : payload) : option payload :=
  match extract_loop c keys (root_default p, O) fs with
  | Some (p', found) =>
      let p'' := if (found <? length keys)%nat then add_missing keys p' else p' in
      Some (log_unsets_root p'')
  | None => None
  end.

(* ---------- ExtractMetadata over the memoised map (the /1/events paths) ---------- *)
Definition extract_memo_step (c : xcfg) (p : payload) (kv : string * value) : payload :=
  let '(k, v) := kv in
  match slookup k metadata_fields with
  | Some t => match mtype_of t with Some mt => meta_assign mt k v p | None => p end
  | None =>
      if is_empty_str (meta_str meta_trace_id p) && smem k (trace_names c) then
        match v with
        | VStr s => if is_empty_str s then p else with_meta p (sset meta_trace_id (VStr s) (p_meta p))
        | _ => p
        end
      else if smem k (parent_names c) then
        match v with
        | VStr s => if is_empty_str s then p else root_false p
        | _ => p
        end
      else p
  end.

Definition extract_memo (c : xcfg) (p : payload) : payload :=
  log_unsets_root (fold_left (extract_memo_step c) (p_memo p) (root_default p)).

(* ---------- MemoizeFields ---------- *)
Fixpoint sdedup (l : list string) : list string :=
  match l with [] => [] | x :: r => if smem x r then sdedup r else x :: sdedup r end.

Fixpoint memo_loop (tofind : list string) (st : payload * nat) (fs : fields) : payload * nat :=
  match fs with
  | [] => st
  | (k, v) :: r =>
      let '(p, found) := st in
      if (found <? length tofind)%nat then
        if smem k tofind then memo_loop tofind (pset k v p, S found) r
        else memo_loop tofind st r
      else st
  end.

Definition memoize (keys : list string) (p : payload) : payload :=
  let tofind := sdedup (filter (fun k => negb (smem k (p_missing p)) && negb (shas k (p_memo p))) keys) in
  match tofind with
  | [] => p
  | _ => let '(p', _) := memo_loop tofind (p, O) (p_raw p) in
         with_missing p' (p_missing p' ++ filter (fun k => negb (shas k (p_memo p'))) tofind)
  end.

(* ---------- addIncomingUserAgent ---------- *)
Definition add_ua (ua : string) (p : payload) : payload :=
  if negb (is_empty_str ua) && is_empty_str (meta_str meta_incoming_user_agent p)
  then with_meta p (sset meta_incoming_user_agent (VStr ua) (p_meta p)) else p.

(* ---------- MarshalMsg ---------- *)
Definition meta_emits (v : value) : bool :=
  match v with
  | VStr s => negb (is_empty_str s)
  | VInt z => negb (z =? 0)
  | _ => true
  end.

Definition marshal_meta (tbl : list (string * string)) (m : fields) : fields :=
  flat_map (fun e => match slookup (fst e) m with
                     | Some v => if meta_emits v then [(fst e, v)] else []
                     | None => [] end) tbl.

Definition marshal (p : payload) : fields :=
  marshal_meta metadata_fields (p_meta p)
  ++ map (fun kv => (fst kv, reenc time_standard (snd kv)))
         (filter (fun kv => negb (reserved (fst kv))) (p_memo p))
  ++ filter (fun kv => negb (shas (fst kv) (p_memo p)) && negb (reserved (fst kv))) (p_raw p).

(* ---------- the four ingestion paths and what happens before transmission ---------- *)
Inductive path := PBatchMsgp | PBatchJson | PEventJson | PEventMsgp | PMetaOnly.

Inductive op :=
| OMemoize (keys : list string)      (* collector: sampler key fields *)
| OSet (k : string) (v : value).     (* collector: meta.* annotations, configured attributes *)

Definition apply_op (p : payload) (o : op) : payload :=
  match o with
  | OMemoize ks => memoize ks p
  | OSet k v => pset k v p
  end.

Section Forward.
  Variable widen : N -> N.

  (* what the decoder of the path makes of the client's value *)
  Definition path_value (pa : path) (v : value) : value :=
    match pa with PEventMsgp => loosen widen v | _ => v end.
  Definition path_fields (pa : path) (fs : fields) : fields :=
    map (fun kv => (fst kv, path_value pa (snd kv))) fs.

  (* request -> *types.Event as processEvent sees it (after ExtractMetadata); None = rejected *)
  Definition ingest (pa : path) (c : xcfg) (ua : string) (fs : fields) : option payload :=
    match fs with
    | [] => None                                    (* "empty event data" *)
    | _ =>
      match pa with
      | PBatchMsgp | PBatchJson =>
          match extract c (key_fields c) fs {| p_raw := fs; p_memo := []; p_missing := []; p_meta := [] |} with
          | Some p => Some (add_ua ua p)
          | None => None
          end
      | PMetaOnly =>
          match extract c [] fs {| p_raw := fs; p_memo := []; p_missing := []; p_meta := [] |} with
          | Some p => Some (add_ua ua p)
          | None => None
          end
      | PEventJson | PEventMsgp =>
          let p0 := {| p_raw := []; p_memo := path_fields pa fs; p_missing := []; p_meta := [] |} in
          Some (extract_memo c (add_ua ua p0))
      end
    end.

  Definition is_probe (p : payload) : bool :=
    match slookup meta_refinery_probe (p_meta p) with Some (VBool true) => true | _ => false end.

  (* the data map of the event as it leaves in a batch; None = nothing is forwarded *)
  Definition forward (pa : path) (c : xcfg) (ua : string) (fs : fields) (ops : list op) : option fields :=
    match ingest pa c ua fs with
    | Some p => if is_probe p then None else Some (marshal (fold_left apply_op ops p))
    | None => None
    end.
End Forward.

(* ---------- specification vocabulary ---------- *)
Fixpoint set_keys (ops : list op) : list string :=
  match ops with
  | [] => []
  | OSet k _ :: r => k :: set_keys r
  | OMemoize _ :: r => set_keys r
  end.

Fixpoint last_set (k : string) (ops : list op) : option value :=
  match ops with
  | [] => None
  | OSet k' v :: r => match last_set k r with
                      | Some w => Some w
                      | None => if String.eqb k k' then Some v else None
                      end
  | OMemoize _ :: r => last_set k r
  end.

(* unique keys at every nesting level: the payloads the property quantifies over *)
Fixpoint sdistinct (l : list string) : bool :=
  match l with [] => true | x :: r => negb (smem x r) && sdistinct r end.

(* the facts about the generated table the proofs need (checked by vm_compute on Gen.metadata_fields) *)
Definition table_ok (tbl : list (string * string)) : bool :=
  forallb (fun e => sprefix "meta." (fst e) && match mtype_of (snd e) with Some _ => true | None => false end) tbl
  && sdistinct (map fst tbl).
