(* C35 — the instance: access tables regenerated from the Go source (Gen/GenC35.v) plus the few
   hand-listed facts the syntactic extraction cannot see.  Definitions only. *)
From Refinery Require Import Lib.Base Model.Locks Gen.GenC35.
Local Open Scope string_scope.

Definition c35_raw : list raw_site :=
  c35_cache_sites ++ c35_config_sites ++ c35_watcher_sites ++ c35_collect_sites ++
  c35_transmit_sites ++ c35_peer_sites ++ c35_route_sites ++ c35_sample_sites ++
  c35_metrics_sites ++ c35_health_sites ++ c35_pubsub_sites ++ c35_sharder_sites ++ c35_generics_sites ++ c35_agent_sites.

Definition c35_table : list site := map mk_site c35_raw.

Definition c35_go : list (string * string * string) :=
  c35_cache_go ++ c35_config_go ++ c35_watcher_go ++ c35_collect_go ++
  c35_transmit_go ++ c35_peer_go ++ c35_route_go ++ c35_sample_go ++
  c35_metrics_go ++ c35_health_go ++ c35_pubsub_go ++ c35_sharder_go ++ c35_generics_go ++ c35_agent_go.

Definition c35_fields : list (string * string * string) :=
  c35_cache_fields ++ c35_config_fields ++ c35_watcher_fields ++ c35_collect_fields ++
  c35_transmit_fields ++ c35_peer_fields ++ c35_route_fields ++ c35_sample_fields ++
  c35_metrics_fields ++ c35_health_fields ++ c35_pubsub_fields ++ c35_sharder_fields ++ c35_generics_fields ++ c35_agent_fields.

(* HAND-LISTED happens-before facts (DESIGN §7 C35 "listed by hand for the few hand-off points").
   (struct, role, functions that may contain the go statement starting the role):
   for one object of the struct at most one goroutine of that role is alive at a time, successive
   ones being ordered by WaitGroup.Wait -> go.  [launch_ok] checks against the generated list of go
   statements that the role is started nowhere else.
   "lifecycle" is the goroutine that calls Start and Stop (facebookgo/startstop from main). *)
Definition c35_singletons : list (string * string * list string) :=
  [ ("CollectorWorker", "CollectorWorker.collect", ["InMemCollector.Start"]);
    ("InMemCollector", "InMemCollector.monitor", ["InMemCollector.Start"]);
    ("InMemCollector", "InMemCollector.sendTraces", ["InMemCollector.Start"]);
    ("cuckooSentCache", "cuckooSentCache.monitor", ["NewCuckooSentCache"; "cuckooSentCache.Resize"]);
    ("CuckooTraceChecker", "cuckooSentCache.monitor", ["NewCuckooSentCache"; "cuckooSentCache.Resize"]);
    ("ConfigWatcher", "ConfigWatcher.monitor", ["ConfigWatcher.Start"]);
    ("DirectTransmission", "DirectTransmission.dispatchStaleBatches", ["DirectTransmission.Start"]);
    ("StressRelief", "StressRelief.Start$go1", ["StressRelief.Start"]);
    ("InMemCollector", "lifecycle", []); ("CollectorWorker", "lifecycle", []);
    ("cuckooSentCache", "lifecycle", []); ("CuckooTraceChecker", "lifecycle", []);
    ("ConfigWatcher", "lifecycle", []); ("DirectTransmission", "lifecycle", []);
    ("StressRelief", "lifecycle", []); ("RedisPubsubPeers", "lifecycle", []);
    ("Router", "lifecycle", []); ("fileConfig", "lifecycle", []);
    ("SamplerFactory", "lifecycle", []) ].

Definition c35_singleton : string -> string -> bool := singleton_of c35_singletons.

Definition c35_required_structs : list string :=
  ["cuckooSentCache"; "CuckooTraceChecker"; "fileConfig"; "ConfigWatcher"; "InMemCollector";
   "CollectorWorker"; "StressRelief"; "DirectTransmission"; "eventBatch"; "RedisPubsubPeers"; "Router";
   "SamplerFactory"; "MultiMetrics"; "Health"; "LocalPubSub"; "GoRedisPubSub"; "DeterministicSharder";
   "SetWithTTL"; "MapWithTTL"; "usageTracker"; "environmentCache"].

(* everything the instance theorem needs, as one boolean *)
Definition c35_instance_ok : bool :=
  well_protected c35_singleton c35_table &&
  launch_ok c35_singletons c35_go &&
  forallb (has_struct c35_table) c35_required_structs.

(* diagnostics: the unprotected pairs, projected *)
Definition show_pair (p : site * site) : string * string * (string * akind) * (string * akind) :=
  let '(a, b) := p in (s_struct a, s_field a, (s_func a, s_kind a), (s_func b, s_kind b)).
Definition c35_bad : list (string * string * (string * akind) * (string * akind)) :=
  map show_pair (bad_pairs c35_singleton c35_table).

(* ------------------------------------------------------------------ the pinned tree's defective rows
   Copied from the translator's output on the tree before the fix: commits (DESIGN §8 row 19 and the
   further ones the table exposed); kept as data so that the theorems show the check rejects them. *)
Definition pinned_kept : list raw_site :=
  [ ("cuckooSentCache", "kept", "NewCuckooSentCache", 1%N, [], ["ext"], 0%N, false, false);
    ("cuckooSentCache", "kept", "cuckooSentCache.CheckSpan", 0%N, [], ["ext"], 1%N, true, false);
    ("cuckooSentCache", "kept", "cuckooSentCache.Record", 0%N, [], ["ext"], 1%N, true, false);
    ("cuckooSentCache", "kept", "cuckooSentCache.Resize", 0%N, [], ["ext"], 1%N, true, false);
    ("cuckooSentCache", "kept", "cuckooSentCache.Resize", 1%N, [], ["ext"], 1%N, true, false) ].
Definition pinned_filecfg : list raw_site :=
  [ ("fileConfig", "mainHash", "fileConfig.GetConfigMetadata", 0%N, [], ["ext"], 1%N, true, false);
    ("fileConfig", "mainHash", "fileConfig.GetHashes", 0%N, [("mux", false)], ["ext"], 1%N, true, false);
    ("fileConfig", "mainHash", "fileConfig.Reload", 0%N, [], ["ext"], 1%N, true, false);
    ("fileConfig", "mainHash", "fileConfig.Reload", 1%N, [("mux", true)], ["ext"], 1%N, true, false);
    ("fileConfig", "callbacks", "fileConfig.RegisterReloadCallback", 1%N, [("mux", true)], ["ext"], 1%N, true, false);
    ("fileConfig", "callbacks", "fileConfig.Reload", 0%N, [], ["ext"], 1%N, true, false) ].
Definition pinned_watcher : list raw_site :=
  [ ("ConfigWatcher", "done", "ConfigWatcher.Stop", 0%N, [], ["lifecycle"], 4%N, true, false);
    ("ConfigWatcher", "done", "ConfigWatcher.monitor", 0%N, [], ["ConfigWatcher.monitor"], 2%N, true, false);
    ("ConfigWatcher", "done", "ConfigWatcher.monitor", 1%N, [], ["ConfigWatcher.monitor"], 2%N, true, false) ].
Definition pinned_collector_reload : list raw_site :=
  [ ("InMemCollector", "reload", "InMemCollector.Start", 1%N, [], ["lifecycle"], 2%N, false, false);
    ("InMemCollector", "reload", "InMemCollector.sendReloadSignal", 0%N, [], ["cb:InMemCollector.sendReloadSignal"], 2%N, true, false);
    ("InMemCollector", "reload", "InMemCollector.monitor", 0%N, [], ["InMemCollector.monitor"], 5%N, true, false) ].
Definition pinned_sampler : list raw_site :=
  [ ("SamplerFactory", "sharedDynsamplers", "SamplerFactory.ClearDynsamplers", 1%N, [("mutex", true)], ["ext"], 2%N, true, false);
    ("SamplerFactory", "sharedDynsamplers", "SamplerFactory.createSampler", 0%N, [], ["ext"], 2%N, true, false);
    ("SamplerFactory", "sharedDynsamplers", "getSharedDynsamplerAndRecorder", 1%N, [("mutex", true)], ["ext"], 2%N, true, false) ].
Definition pinned_peers : list raw_site :=
  [ ("RedisPubsubPeers", "hash", "RedisPubsubPeers.checkHash", 0%N, [], ["cb:RedisPubsubPeers.listen"], 2%N, true, false);
    ("RedisPubsubPeers", "hash", "RedisPubsubPeers.checkHash", 1%N, [], ["cb:RedisPubsubPeers.listen"], 2%N, true, false);
    ("RedisPubsubPeers", "callbacks", "RedisPubsubPeers.RegisterUpdatedPeersCallback", 1%N, [], ["ext"], 3%N, true, false);
    ("RedisPubsubPeers", "callbacks", "RedisPubsubPeers.checkHash", 0%N, [], ["cb:RedisPubsubPeers.listen"], 2%N, true, false) ].
