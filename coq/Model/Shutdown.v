(* Shutdown of the collector (collect/collect.go InMemCollector.Stop, collector_worker.go collect()).

   Pinned code: Stop closes `done`, waits for the monitor goroutine, closes every worker's input
   channels; each worker's collect() returns as soon as it sees a closed channel; then the sample
   caches are stopped, tracesToSend is closed and the sender goroutine finishes what is queued.
   NOBODY visits the workers' trace buffers: [stop_pinned] changes nothing and emits nothing.

   What the documentation promises (README "all in-flight traces will be flushed", ShutdownDelay
   "drains the remaining traces"): [stop_drain], every buffered trace decided the usual way. *)
From Refinery Require Import Lib.Base Model.Collector.

Section Shutdown.
  Variable sampler : N -> list span -> bool.
  Variable dry : bool.

  (* the pinned code *)
  Definition stop_pinned (w : wstate) : wstate * list ev := (w, []).

  (* the documented behaviour: decide everything that is buffered (reason ladder of a send tick) *)
  Definition stop_drain (w : wstate) : wstate * list ev :=
    decide_list sampler dry w (tick_reason (w_cfg w)) (w_buf w).

  (* a history, then shutdown *)
  Definition run_then_stop (stop : wstate -> wstate * list ev) (w : wstate) (ops : list op)
    : wstate * list (list ev) :=
    let '(w1, es) := run sampler dry w ops in
    let '(w2, e) := stop w1 in (w2, es ++ [e]).
End Shutdown.
