(* Executable model of route/proxy.go (Router.proxy) behind the setResponseHeaders middleware.
   Requests and responses are records; a header map is an association list  canonical name -> values in order
   (Go map iteration order is never observable here because every name is written once with Header.Set).

   Parametric in what tools/translate extracts (Gen/GenC37.v): the headers the middleware presets, whether the
   X-Forwarded-For rule uses the first client value or all of them, whether redirects are relayed.
   NOT modelled (the property is claimed partially): net/http transfer semantics - Host, Content-Length,
   Transfer-Encoding, the transport's own Accept-Encoding / User-Agent, transparent gzip, Date, content sniffing,
   connection errors - and gorilla/mux's path cleaning (unclean paths are redirected before the proxy runs).
   No proofs in this file. *)
From Refinery Require Import Lib.Base Gen.GenC37.

Definition hdrs := list (string * list string).

Record preq := {
  q_method : string;
  q_target : string;        (* request target: escaped path and raw query, exactly as the client sent it *)
  q_body : string;
  q_hdrs : hdrs;
  q_remote : string         (* req.RemoteAddr *)
}.

Record presp := { s_status : N; s_hdrs : hdrs; s_body : string }.

Fixpoint hlookup (n : string) (h : hdrs) : option (list string) :=
  match h with [] => None | (k, v) :: r => if String.eqb n k then Some v else hlookup n r end.

(* Header.Set(n, v) *)
Fixpoint hset (n : string) (v : list string) (h : hdrs) : hdrs :=
  match h with
  | [] => [(n, v)]
  | (k, w) :: r => if String.eqb n k then (k, v) :: r else (k, w) :: hset n v r
  end.

Definition joinc (vs : list string) : string := String.concat "," vs.
Definition joincs (vs : list string) : string := String.concat ", " vs.

(* for header, vals := range H { dst.Set(header, strings.Join(vals, ",")) } *)
Definition join_all (h : hdrs) : hdrs := map (fun kv => (fst kv, [joinc (snd kv)])) h.

Definition xff : string := "X-Forwarded-For".

Record pparams := {
  pp_defaults : hdrs;        (* what setResponseHeaders presets on every response *)
  pp_xff_all : bool;         (* the client's X-Forwarded-For values are all kept (else only the first) *)
  pp_relay_redirects : bool  (* a 3xx of the upstream is relayed, not followed *)
}.

Definition gen_pparams : pparams := {|
  pp_defaults := combine c37_default_names (map (fun v => [v]) c37_default_values);
  pp_xff_all := c37_xff_all_values && negb c37_xff_first_value_only;
  pp_relay_redirects := c37_redirects_relayed |}.

Definition pinned_pparams : pparams := {|
  pp_defaults := [("Content-Type", ["application/json"]); ("Access-Control-Allow-Origin", ["*"])]%string;
  pp_xff_all := false; pp_relay_redirects := false |}.

(* the value the proxy puts into X-Forwarded-For *)
Definition forwarded_for (p : pparams) (r : preq) : string :=
  let client := match hlookup xff (q_hdrs r) with
                | Some vs => if pp_xff_all p then joincs vs else hd ""%string vs
                | None => ""%string
                end in
  if String.eqb client "" then q_remote r else (client ++ ", " ++ q_remote r)%string.

(* the request the upstream sees *)
Definition relay_req (p : pparams) (r : preq) : preq := {|
  q_method := q_method r;
  q_target := q_target r;
  q_body := q_body r;
  q_hdrs := hset xff [forwarded_for p r] (join_all (q_hdrs r));
  q_remote := q_remote r |}.

(* w.Header() starts with the middleware's presets; every upstream header is Set over it *)
Definition set_all (src dst : hdrs) : hdrs := fold_left (fun acc kv => hset (fst kv) (snd kv) acc) src dst.

Definition relay_resp (p : pparams) (u : presp) : presp := {|
  s_status := s_status u;
  s_hdrs := set_all (join_all (s_hdrs u)) (pp_defaults p);
  s_body := s_body u |}.

(* what the source has to look like for the model to be its model *)
Definition source_ok : bool :=
  c37_same_method_target_body && c37_body_read_unconditionally && negb c37_looks_at_length &&
  c37_req_headers_joined && c37_resp_relayed && c37_status_relayed_unconditionally && c37_body_relayed_unconditionally &&
  c37_xff_rule &&
  (c37_xff_all_values || c37_xff_first_value_only) &&
  (length c37_default_names =? length c37_default_values)%nat.

(* header names occur once *)
Definition names (h : hdrs) : list string := map fst h.
