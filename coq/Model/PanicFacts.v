(* Facts about the source that the C28 models are parametric in, derived from the STRUCTURAL path conditions the
   translator collects for each inventoried site (Gen/GenC28.v), not from the text of a function: a fact holds when the
   site exists and EVERY occurrence of it is reached only under the named conditions. Rewriting `if/else if` as a
   `switch`, or `if c {X}` as `if !c {continue}; X`, keeps the fact; weakening or removing the condition loses it. *)
From Refinery Require Import Lib.Base Gen.GenC28.

Definition gs_mem (a : string) (l : list string) : bool := existsb (String.eqb a) l.
Definition site_is (f k sh : string) (s : string * string * string * list string) : bool :=
  let '(f', k', sh', _) := s in String.eqb f f' && String.eqb k k' && String.eqb sh sh'.
Definition site_guarded (sites : list (string * string * string * list string)) (f k sh : string) (need : list string) : bool :=
  let occ := filter (site_is f k sh) sites in
  negb (Nat.eqb (length occ) 0) && forallb (fun s => forallb (fun g => gs_mem g (snd s)) need) occ.

Local Open Scope string_scope.
(* DeterministicSampler.Start divides only for 1 < rate <= MaxUint32 *)
Definition det_start_guards_rate : bool :=
  site_guarded sites_sample "DeterministicSampler.Start" "div" "math.MaxUint32 / uint32(d.sampleRate)"
               ["d.sampleRate > 1"; "uint64(d.sampleRate) <= math.MaxUint32"].
(* GetKeyFields looks at field[0] only for a non-empty name *)
Definition key_fields_skips_empty : bool :=
  site_guarded sites_config "GetKeyFields" "index" "_[0]" ["field != """""].
(* the static-rate draw of a rule happens only for a positive rate *)
Definition rules_draw_guarded : bool :=
  site_guarded sites_sample "RulesBasedSampler.GetSampleRate" "intn" "rand.Intn(rule.SampleRate)" ["rule.SampleRate > 0"].
(* extractValueFromSpan takes trace.RootSpan only when it is not nil *)
Definition root_field_skipped_without_root : bool :=
  site_guarded sites_sample "extractValueFromSpan" "rootspan" "assign trace.RootSpan" ["trace.RootSpan != nil"].
(* getEventTime slices the header at 10 only when it is longer than 10 *)
Definition event_time_slices_guarded : bool :=
  site_guarded sites_route "getEventTime" "slice" "_[:10]" ["len(etHeader) > 10"] &&
  site_guarded sites_route "getEventTime" "slice" "_[10:]" ["len(etHeader) > 10"].
