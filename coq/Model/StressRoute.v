(* Reference-aware executable model of the stress-relief path of one refinery node:
   route/route.go processEvent + collect/collect.go ProcessSpanImmediately + dealWithSentTrace +
   transmit/direct_transmit.go EnqueueEvent / sendBatch.

   An *Event is a heap cell.  Transmissions queue REFERENCES together with the batch key computed at
   enqueue time (apiHost, apiKey, dataset); sendBatch reads destination, key, dataset from the FIRST
   event of the batch AT SEND TIME and serializes every event's data AT SEND TIME.  So a write to a
   cell after it was queued is visible in what is finally posted.

   [alias = true ] : the probe is the very cell already queued upstream (the tree before commit "fix:
                     send a copy of the event as the stress-relief probe")
   [alias = false] : the probe is a fresh copy (the code as it is now).

   The value machine [vstep] below is the specification of queue contents "by value".
   External functions are parameters: [own] (sharder: 0 = this node, k > 0 = peer k),
   [keep_rule] (wyhash(traceID, hashSeed) <= MaxUint64 / SamplingRate).
   The collector clock is frozen in the scenarios (no trace timeouts), so a buffered trace stays buffered.
   No proofs in this file. *)
From Refinery Require Import Lib.Base.

Record pay := mkPay {
  p_sid : N; p_tid : N; p_key : N; p_ds : N;   (* span id (stands for the user fields), trace, api key, dataset *)
  p_host : N;                                  (* Event.APIHost: 0 = Honeycomb API, k > 0 = peer k *)
  p_probe : bool; p_stressed : bool; p_late : bool }.

Definition bkey := (N * N * N)%type.
Definition key_of (p : pay) : bkey := (p_host p, p_key p, p_ds p).
Definition bkey_eqb (a b : bkey) : bool :=
  let '(h, k, d) := a in let '(h', k', d') := b in N.eqb h h' && N.eqb k k' && N.eqb d d'.

Definition set_host (h : N) (p : pay) := mkPay (p_sid p) (p_tid p) (p_key p) (p_ds p) h (p_probe p) (p_stressed p) (p_late p).
Definition set_probe (p : pay) := mkPay (p_sid p) (p_tid p) (p_key p) (p_ds p) (p_host p) true (p_stressed p) (p_late p).
Definition set_stressed (p : pay) := mkPay (p_sid p) (p_tid p) (p_key p) (p_ds p) (p_host p) (p_probe p) true (p_late p).
Definition set_late (p : pay) := mkPay (p_sid p) (p_tid p) (p_key p) (p_ds p) (p_host p) (p_probe p) (p_stressed p) true.

Inductive op :=
| Arr (sid tid key ds : N)      (* a span arrives at the incoming router *)
| Stress (b : bool)             (* stress relief switches on / off *)
| FlushUp | FlushPeer           (* the upstream / peer transmission dispatches all pending batches *)
| Probe (sid tid key ds : N).   (* a PROBE sent by another (stressed) node arrives at this node's peer router:
                                   processEvent discards it before anything else (also when this node is stressed) *)

Inductive out :=
| Post (upstream : bool) (host key ds : N) (evs : list pay)   (* one HTTP batch request as sent *)
| Dropped (sid : N) | Buffered (sid : N).

(* batches in order of first enqueue; each batch keeps enqueue order *)
Fixpoint groups {A} (fuel : nat) (q : list (bkey * A)) : list (list (bkey * A)) :=
  match fuel with
  | O => []
  | S f => match q with
           | [] => []
           | (k, x) :: r =>
               let '(same, other) := partition (fun e => bkey_eqb (fst e) k) r in
               ((k, x) :: same) :: groups f other
           end
  end.

Section StressRoute.
  Variable own : N -> N.
  Variable keep_rule : N -> bool.

  (* ---------------- the value machine (specification of the queues) ---------------- *)
  Record vstate := { v_st : bool; v_dec : amap bool; v_up : list (bkey * pay); v_pr : list (bkey * pay);
                     v_buf : list N (* traces held in this node's trace buffer *) }.
  Definition vinit : vstate := {| v_st := false; v_dec := []; v_up := []; v_pr := []; v_buf := [] |}.

  Definition vpost (upstream : bool) (g : list (bkey * pay)) : out :=
    match g with
    | [] => Post upstream 0 0 0 []
    | (_, p0) :: _ => Post upstream (p_host p0) (p_key p0) (p_ds p0) (map snd g)
    end.

  Definition vstep (s : vstate) (o : op) : vstate * list out :=
    match o with
    | Probe _ _ _ _ => (s, [])
    | Stress b => ({| v_st := b; v_dec := v_dec s; v_up := v_up s; v_pr := v_pr s; v_buf := v_buf s |}, [])
    | FlushUp => ({| v_st := v_st s; v_dec := v_dec s; v_up := []; v_pr := v_pr s; v_buf := v_buf s |},
                  map (vpost true) (groups (length (v_up s)) (v_up s)))
    | FlushPeer => ({| v_st := v_st s; v_dec := v_dec s; v_up := v_up s; v_pr := []; v_buf := v_buf s |},
                    map (vpost false) (groups (length (v_pr s)) (v_pr s)))
    | Arr sid tid key ds =>
        let p0 := mkPay sid tid key ds 0 false false false in
        if v_st s then
          let d := match alookup tid (v_dec s) with Some d => d | None => keep_rule tid end in
          let dec' := match alookup tid (v_dec s) with Some _ => v_dec s | None => aset tid d (v_dec s) end in
          if d then
            let p1 := set_stressed p0 in
            let up' := v_up s ++ [(key_of p1, p1)] in
            if N.eqb (own tid) 0 then
              ({| v_st := true; v_dec := dec'; v_up := up'; v_pr := v_pr s; v_buf := v_buf s |}, [])
            else
              let pp := set_host (own tid) (set_probe p1) in
              ({| v_st := true; v_dec := dec'; v_up := up'; v_pr := v_pr s ++ [(key_of pp, pp)]; v_buf := v_buf s |}, [])
          else ({| v_st := true; v_dec := dec'; v_up := v_up s; v_pr := v_pr s; v_buf := v_buf s |}, [Dropped sid])
        else if N.eqb (own tid) 0 then
          if mem_N tid (v_buf s) then (s, [Buffered sid])      (* the trace is in the buffer: the span joins it *)
          else
          match alookup tid (v_dec s) with
          | Some true => let p1 := set_late p0 in
                         ({| v_st := false; v_dec := v_dec s; v_up := v_up s ++ [(key_of p1, p1)]; v_pr := v_pr s; v_buf := v_buf s |}, [])
          | Some false => (s, [Dropped sid])
          | None => ({| v_st := false; v_dec := v_dec s; v_up := v_up s; v_pr := v_pr s; v_buf := tid :: v_buf s |}, [Buffered sid])
          end
        else
          let pf := set_host (own tid) p0 in
          ({| v_st := false; v_dec := v_dec s; v_up := v_up s; v_pr := v_pr s ++ [(key_of pf, pf)]; v_buf := v_buf s |}, [])
    end.

  Fixpoint vrun (s : vstate) (ops : list op) : vstate * list out :=
    match ops with
    | [] => (s, [])
    | o :: r => let '(s1, o1) := vstep s o in let '(s2, o2) := vrun s1 r in (s2, o1 ++ o2)
    end.

  (* ---------------- the heap machine (the code) ---------------- *)
  Variable alias : bool.

  Record hstate := { h_hp : amap pay; h_nxt : N; h_st : bool; h_dec : amap bool;
                     h_up : list (bkey * N); h_pr : list (bkey * N); h_buf : list N }.
  Definition hinit : hstate := {| h_hp := []; h_nxt := 0%N; h_st := false; h_dec := []; h_up := []; h_pr := []; h_buf := [] |}.

  Definition dummy := mkPay 0 0 0 0 0 false false false.
  Definition deref (hp : amap pay) (r : N) : pay := match alookup r hp with Some p => p | None => dummy end.
  Definition upd (hp : amap pay) (r : N) (f : pay -> pay) : amap pay := aset r (f (deref hp r)) hp.

  Definition hpost (hp : amap pay) (upstream : bool) (g : list (bkey * N)) : out :=
    match g with
    | [] => Post upstream 0 0 0 []
    | (_, r0) :: _ => let p0 := deref hp r0 in
                      Post upstream (p_host p0) (p_key p0) (p_ds p0) (map (fun e => deref hp (snd e)) g)
    end.

  Definition hstep (s : hstate) (o : op) : hstate * list out :=
    match o with
    | Probe _ _ _ _ => (s, [])                                  (* `dropping probe` *)
    | Stress b => ({| h_hp := h_hp s; h_nxt := h_nxt s; h_st := b; h_dec := h_dec s; h_up := h_up s; h_pr := h_pr s; h_buf := h_buf s |}, [])
    | FlushUp => ({| h_hp := h_hp s; h_nxt := h_nxt s; h_st := h_st s; h_dec := h_dec s; h_up := []; h_pr := h_pr s; h_buf := h_buf s |},
                  map (hpost (h_hp s) true) (groups (length (h_up s)) (h_up s)))
    | FlushPeer => ({| h_hp := h_hp s; h_nxt := h_nxt s; h_st := h_st s; h_dec := h_dec s; h_up := h_up s; h_pr := []; h_buf := h_buf s |},
                    map (hpost (h_hp s) false) (groups (length (h_pr s)) (h_pr s)))
    | Arr sid tid key ds =>
        let r := h_nxt s in                                         (* ev := &types.Event{...} *)
        let hp0 := aset r (mkPay sid tid key ds 0 false false false) (h_hp s) in
        let nx0 := (r + 1)%N in
        if h_st s then                                              (* r.Collector.Stressed() *)
          let d := match alookup tid (h_dec s) with Some d => d | None => keep_rule tid end in   (* CheckSpan / GetSampleRate *)
          let dec' := match alookup tid (h_dec s) with Some _ => h_dec s | None => aset tid d (h_dec s) end in  (* Record *)
          if d then
            let hp1 := upd hp0 r set_stressed in                    (* sp.Data.Set(MetaStressed, true) *)
            let up' := h_up s ++ [(key_of (deref hp1 r), r)] in     (* i.Transmission.EnqueueSpan(sp) *)
            (* the probe: the same cell, or a copy *)
            let rp := if alias then r else nx0 in
            let hp2 := if alias then hp1 else aset nx0 (deref hp1 r) hp1 in
            let nx1 := if alias then nx0 else (nx0 + 1)%N in
            let hp3 := upd hp2 rp set_probe in                      (* ev.Data.MetaRefineryProbe.Set(true) *)
            if N.eqb (own tid) 0 then                               (* target is me: "just skip it" *)
              ({| h_hp := hp3; h_nxt := nx1; h_st := true; h_dec := dec'; h_up := up'; h_pr := h_pr s; h_buf := h_buf s |}, [])
            else
              let hp4 := upd hp3 rp (set_host (own tid)) in         (* ev.APIHost = targetShard.GetAddress() *)
              ({| h_hp := hp4; h_nxt := nx1; h_st := true; h_dec := dec'; h_up := up';
                  h_pr := h_pr s ++ [(key_of (deref hp4 rp), rp)]; h_buf := h_buf s |}, [])   (* r.PeerTransmission.EnqueueEvent(ev) *)
          else ({| h_hp := hp0; h_nxt := nx0; h_st := true; h_dec := dec'; h_up := h_up s; h_pr := h_pr s; h_buf := h_buf s |}, [Dropped sid])
        else if N.eqb (own tid) 0 then                              (* AddSpan -> processSpan *)
          if mem_N tid (h_buf s) then                               (* cl.cache.Get(sp.TraceID) != nil: trace.AddSpan *)
            ({| h_hp := hp0; h_nxt := nx0; h_st := false; h_dec := h_dec s; h_up := h_up s; h_pr := h_pr s; h_buf := h_buf s |}, [Buffered sid])
          else
          match alookup tid (h_dec s) with
          | Some true => let hp1 := upd hp0 r set_late in           (* dealWithSentTrace, kept *)
                         ({| h_hp := hp1; h_nxt := nx0; h_st := false; h_dec := h_dec s;
                             h_up := h_up s ++ [(key_of (deref hp1 r), r)]; h_pr := h_pr s; h_buf := h_buf s |}, [])
          | Some false => ({| h_hp := hp0; h_nxt := nx0; h_st := false; h_dec := h_dec s; h_up := h_up s; h_pr := h_pr s; h_buf := h_buf s |}, [Dropped sid])
          | None => ({| h_hp := hp0; h_nxt := nx0; h_st := false; h_dec := h_dec s; h_up := h_up s; h_pr := h_pr s; h_buf := tid :: h_buf s |}, [Buffered sid])
          end
        else
          let hp1 := upd hp0 r (set_host (own tid)) in              (* forward to the owner *)
          ({| h_hp := hp1; h_nxt := nx0; h_st := false; h_dec := h_dec s; h_up := h_up s;
              h_pr := h_pr s ++ [(key_of (deref hp1 r), r)]; h_buf := h_buf s |}, [])
    end.

  Fixpoint hrun (s : hstate) (ops : list op) : hstate * list out :=
    match ops with
    | [] => (s, [])
    | o :: r => let '(s1, o1) := hstep s o in let '(s2, o2) := hrun s1 r in (s2, o1 ++ o2)
    end.

  (* ---------------- the specification: what the property says, without queues or caches ---------------- *)
  (* state: stressed?, traces seen (decided) while stressed, traces this node holds in its buffer
     (first seen here while NOT stressed and never decided before) *)
  Inductive fate := FKeepStress | FKeepLate | FDrop | FBuffer | FForward.
  Definition fate_of (st : bool) (seen buf : list N) (tid : N) : fate :=
    if st then (if keep_rule tid then FKeepStress else FDrop)
    else if N.eqb (own tid) 0 then
      (if mem_N tid buf then FBuffer
       else if mem_N tid seen then (if keep_rule tid then FKeepLate else FDrop) else FBuffer)
    else FForward.
  Definition buf_after (st : bool) (seen buf : list N) (tid : N) : list N :=
    if st then buf
    else if N.eqb (own tid) 0 then
      (if mem_N tid buf then buf else if mem_N tid seen then buf else tid :: buf)
    else buf.

  (* what Honeycomb must receive for a span, by value *)
  Definition expect_up (f : fate) (sid tid key ds : N) : list pay :=
    match f with
    | FKeepStress => [mkPay sid tid key ds 0 false true false]
    | FKeepLate => [mkPay sid tid key ds 0 false false true]
    | _ => []
    end.
  (* what the owning peer must receive *)
  Definition expect_pr (f : fate) (sid tid key ds : N) : list pay :=
    match f with
    | FKeepStress => if N.eqb (own tid) 0 then [] else [mkPay sid tid key ds (own tid) true true false]
    | FForward => [mkPay sid tid key ds (own tid) false false false]
    | _ => []
    end.
  Definition expect_ev (f : fate) (sid : N) : list out :=
    match f with FDrop => [Dropped sid] | FBuffer => [Buffered sid] | _ => [] end.

  Fixpoint spec_up (st : bool) (seen buf : list N) (ops : list op) : list pay :=
    match ops with
    | [] => []
    | Arr sid tid key ds :: r =>
        expect_up (fate_of st seen buf tid) sid tid key ds ++
        spec_up st (if st then tid :: seen else seen) (buf_after st seen buf tid) r
    | Stress b :: r => spec_up b seen buf r
    | _ :: r => spec_up st seen buf r
    end.
  Fixpoint spec_pr (st : bool) (seen buf : list N) (ops : list op) : list pay :=
    match ops with
    | [] => []
    | Arr sid tid key ds :: r =>
        expect_pr (fate_of st seen buf tid) sid tid key ds ++
        spec_pr st (if st then tid :: seen else seen) (buf_after st seen buf tid) r
    | Stress b :: r => spec_pr b seen buf r
    | _ :: r => spec_pr st seen buf r
    end.
  Fixpoint spec_ev (st : bool) (seen buf : list N) (ops : list op) : list out :=
    match ops with
    | [] => []
    | Arr sid tid key ds :: r =>
        expect_ev (fate_of st seen buf tid) sid ++
        spec_ev st (if st then tid :: seen else seen) (buf_after st seen buf tid) r
    | Stress b :: r => spec_ev b seen buf r
    | _ :: r => spec_ev st seen buf r
    end.

  (* projections of an output trace *)
  Definition posted (upstream : bool) (o : out) : list pay :=
    match o with Post u _ _ _ evs => if Bool.eqb u upstream then evs else [] | _ => [] end.
  Definition all_posted (upstream : bool) (outs : list out) : list pay := flat_map (posted upstream) outs.
  Definition is_post (o : out) : bool := match o with Post _ _ _ _ _ => true | _ => false end.
  Definition events (outs : list out) : list out := filter (fun o => negb (is_post o)) outs.
End StressRoute.
