(* Executable model of
     sample/deterministic.go   DeterministicSampler.Start / GetSampleRate
     collect/stressRelief.go   StressRelief.UpdateFromConfig / GetSampleRate (sampling part)

   Go                                                        model
   --                                                        -----
   d.sampleRate = d.Config.SampleRate            (int)       d_rate  : Z  (any Go int)
   d.upperBound = math.MaxUint32 / uint32(rate)              gen_bound MAX bits rate
        uint32(rate)  = rate mod 2^32 ; divisor 0 = runtime panic  -> None
   if d.sampleRate <= 1 { return 1, true }                   gen_get
   v := BigEndian.Uint32(sha1(traceID+salt)[:4])             h : Z   (oracle: the harness passes the value
   return uint(rate), v <= d.upperBound                               the real hash returned, 0 <= h < 2^32)

   s.sampleRate = cfg.SamplingRate (uint64); 0 -> 1          stress_update
   s.upperBound = math.MaxUint64 / s.sampleRate
   if s.sampleRate <= 1 { return 1, true }                   gen_get
   hash := wyhash.Hash(traceID, hashSeed)                    h : Z   (oracle, 0 <= h < 2^64)
   return uint(rate), hash <= s.upperBound

   Every numeric constant, the width of the conversion and the comparison operators come from
   Gen/GenC10.v (extracted from the Go source on every run).  No proofs in this file. *)
From Refinery Require Import Lib.Base.
From Refinery Require Gen.GenC10.

(* ---------- generic pieces ---------- *)
Definition thr_cmp (le : bool) (h b : Z) : bool := if le then h <=? b else h <? b.

(* Go's conversion of an int to an unsigned type of [bits] bits *)
Definition conv_u (bits rate : Z) : Z := rate mod 2 ^ bits.

(* MAX / uintN(rate); integer division by zero is a runtime panic *)
Definition gen_bound (MAX bits rate : Z) : option Z :=
  let d := conv_u bits rate in if d =? 0 then None else Some (MAX / d).

(* GetSampleRate: (returned rate, keep) *)
Definition gen_get (always : Z) (le : bool) (rate bound h : Z) : Z * bool :=
  if rate <=? always then (1, true) else (rate, thr_cmp le h bound).

(* ---------- deterministic sampler ---------- *)
Record det_inst := { d_rate : Z; d_bound : Z }.

Definition det_start (rate : Z) : option det_inst :=
  match gen_bound GenC10.det_max GenC10.det_conv_bits rate with
  | None => None                                   (* Start panics *)
  | Some b => Some {| d_rate := rate; d_bound := b |}
  end.

Definition det_get (i : det_inst) (h : Z) : Z * bool :=
  gen_get GenC10.det_always_le GenC10.det_cmp_le (d_rate i) (d_bound i) h.

(* Start followed by one GetSampleRate *)
Definition det_sample (rate h : Z) : option (Z * bool) :=
  match det_start rate with None => None | Some i => Some (det_get i h) end.

Definition det_keep (rate h : Z) : bool :=
  match det_sample rate h with Some (_, k) => k | None => false end.

(* size of the hash range: h is [det_hash_bytes] big-endian bytes *)
Definition det_hash_range : Z := 2 ^ (8 * GenC10.det_hash_bytes).

(* ---------- stress relief ---------- *)
Record stress_inst := { s_rate : Z; s_bound : Z }.

(* cfg is a uint64: 0 <= cfg < 2^64 *)
Definition stress_update (cfg : Z) : stress_inst :=
  let r := if cfg =? 0 then GenC10.stress_zero_becomes else cfg in
  {| s_rate := r; s_bound := GenC10.stress_max / r |}.

Definition stress_get (i : stress_inst) (h : Z) : Z * bool :=
  gen_get GenC10.stress_always_le GenC10.stress_cmp_le (s_rate i) (s_bound i) h.

Definition stress_sample (cfg h : Z) : Z * bool := stress_get (stress_update cfg) h.
Definition stress_keep (cfg h : Z) : bool := snd (stress_sample cfg h).
Definition stress_hash_range : Z := 2 ^ 64.

(* ---------- counting kept hashes in [0, n) ---------- *)
Definition countN (P : Z -> bool) (n : N) : Z :=
  N.peano_rect (fun _ => Z) 0 (fun k acc => if P (Z.of_N k) then acc + 1 else acc) n.

(* ---------- the specification: a threshold at 1/rate of the hash range ---------- *)
(* keep  <->  rate <= 1  \/  h * rate <= MAX          (MAX = largest hash value) *)
Definition spec_keep (MAX rate h : Z) : bool := (rate <=? 1) || (h * rate <=? MAX).
