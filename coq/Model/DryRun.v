(* Vocabulary of the dry-run specification (C05) over the forwarding model of Model/Rates.v. No proofs. *)
From Refinery Require Import Lib.Base Model.Rates.

(* span ids currently buffered, in buffer order *)
Definition buffered_sids (s : st) : list N := flat_map (fun p => map s_id (t_spans (snd p))) (buf s).

(* span ids handed to processSpan by a history *)
Fixpoint span_ids (ops : list op) : list N :=
  match ops with
  | [] => []
  | Span sp :: r => s_id sp :: span_ids r
  | _ :: r => span_ids r
  end.

Definition is_stress (o : op) : bool := match o with Stress _ => true | _ => false end.
Definition keeps_dry (o : op) : bool := match o with Reload c => c_dry c | _ => true end.

(* histories the dry-run property talks about: DryRun stays enabled; stress relief (which is documented to
   ignore dry run) is treated separately *)
Definition dry_history (ops : list op) : bool := forallb (fun o => keeps_dry o && negb (is_stress o)) ops.

Definition all_sids (outs : list (list out)) : list N := flat_map (map o_sid) outs.
