(* C35 — lockset / happens-before discipline.  Definitions only (proofs are in Proofs/Locks.v).

   Two layers.

   (1) DYNAMIC.  A run is an interleaving [list ev] of the steps of all goroutines:
         Acc t o s      thread t touches the field named by access site s of object o
         Acq/Rel t o m x   thread t acquires / releases the lock held in field m of object o
                           (x = true : Lock/Unlock,  x = false : RLock/RUnlock)
         Post t k / Await t k   one-shot synchronisation edge k (go statement -> first step of the
                           new goroutine, close(ch)/send -> receive, wg.Done -> wg.Wait, publication
                           of a freshly constructed object)
       Happens-before [hb] is the transitive closure of program order and the synchronises-with
       edges the Go memory model gives for sync.Mutex / sync.RWMutex (every earlier Unlock before
       every later Lock/RLock; every earlier RUnlock before every later Lock) and Post k -> Await k.
       A data race is a pair of conflicting accesses not ordered by hb.

   (2) STATIC.  An access table (one row per syntactic access site: struct, field, enclosing
       function, read/write/atomic, locks of the same object syntactically held, goroutine roles
       that can reach the function, phase) is what tools/translate regenerates from the Go source
       (Gen/GenC35.v).  [well_protected] is the boolean discipline check on the table.
       [conforms] states what a run must satisfy to be a run of a program described by the table.
*)
From Refinery Require Import Lib.Base.
Local Open Scope nat_scope.

(* ------------------------------------------------------------------ static table *)
Inductive akind := KRead | KWrite | KAtomic.

Record site := {
  s_struct : string;
  s_field  : string;
  s_func   : string;                (* enclosing function, "Recv.Method" *)
  s_kind   : akind;
  s_locks  : list (string * bool);  (* (lock field of the same object, exclusively held?) *)
  s_roles  : list string;           (* goroutine roles that may execute the site *)
  s_phase  : N;                     (* early site (s_run = false): 0 = the object is still local to its
                                       constructor, k >= 1 = k-th segment of Start (between its spawn
                                       points), executed by the phase owner before the phase gate opens.
                                       running site (s_run = true): birth = every goroutine that reaches
                                       the site has passed the gates of all phases < s_phase *)
  s_run    : bool;
  s_final  : bool                   (* running site inside Stop after the struct's own goroutines have been
                                       joined (WaitGroup.Wait): hand-listed edge "everything else on the
                                       object happens-before it" *)
}.

Definition akind_of_N (n : N) : akind :=
  match n with 0%N => KRead | 1%N => KWrite | _ => KAtomic end.

Definition raw_site := (string * string * string * N * list (string * bool) * list string * N * bool * bool)%type.
Definition mk_site (r : raw_site) : site :=
  let '(st, f, fn, k, ls, rs, ph, rn, fi) := r in
  {| s_struct := st; s_field := f; s_func := fn; s_kind := akind_of_N k;
     s_locks := ls; s_roles := rs; s_phase := ph; s_run := rn; s_final := fi |}.

(* Conservative: an atomic access may be a store, so atomic/plain-read pairs conflict too. *)
Definition kinds_conflict (a b : akind) : bool :=
  match a, b with
  | KRead, KRead => false
  | KAtomic, KAtomic => false
  | _, _ => true
  end.

Definition same_loc (a b : site) : bool :=
  String.eqb (s_struct a) (s_struct b) && String.eqb (s_field a) (s_field b).

(* a lock held at both sites, exclusively at one of them at least *)
Definition common_lock (a b : site) : bool :=
  existsb (fun p => let '(m, x) := p in
                    existsb (fun q => let '(m', x') := q in String.eqb m m' && (x || x')) (s_locks b))
          (s_locks a).

(* a is an early site and b comes later: either b is (reached only by goroutines) born after a's
   phase, or b is an early site of the same phase (same owner goroutine) *)
Definition early_before (a b : site) : bool :=
  negb (s_run a) && ((s_phase a <? s_phase b)%N || (negb (s_run b) && (s_phase a =? s_phase b)%N)).

(* listed edge: a is an ordinary running site, b a final one *)
Definition before_final (a b : site) : bool := s_run a && negb (s_final a) && s_run b && s_final b.

Section Static.
  (* singleton st r = true : at most one goroutine of role r ever touches a given object of struct st
     (hand-listed in tools/translate/specs/C35.json, guarded by [launch_ok] below) *)
  Variable singleton : string -> string -> bool.

  Definition same_single (a b : site) : bool :=
    match s_roles a, s_roles b with
    | [r], [r'] => String.eqb r r' && singleton (s_struct a) r
    | _, _ => false
    end.

  Definition pair_ok (a b : site) : bool :=
    negb (same_loc a b) || negb (kinds_conflict (s_kind a) (s_kind b))
    || early_before a b || early_before b a
    || before_final a b || before_final b a
    || common_lock a b || same_single a b.

  Definition well_protected (tbl : list site) : bool :=
    forallb (fun a => forallb (pair_ok a) tbl) tbl.

  (* the unprotected pairs, for diagnostics and for the monitor *)
  Definition bad_pairs (tbl : list site) : list (site * site) :=
    flat_map (fun a => map (fun b => (a, b)) (filter (fun b => negb (pair_ok a b)) tbl)) tbl.
End Static.

(* ------------------------------------------------------------------ dynamic semantics *)
Definition tid := N.
Definition obj := N.

Inductive ev :=
| Acc (t : tid) (o : obj) (s : nat)
| Acq (t : tid) (o : obj) (m : string) (x : bool)
| Rel (t : tid) (o : obj) (m : string) (x : bool)
| Post (t : tid) (k : N)
| Await (t : tid) (k : N).

Definition thr (e : ev) : tid :=
  match e with
  | Acc t _ _ | Acq t _ _ _ | Rel t _ _ _ | Post t _ | Await t _ => t
  end.

Definition at_ (tr : list ev) (i : nat) (e : ev) : Prop := nth_error tr i = Some e.

(* synchronises-with *)
Definition sw (a b : ev) : bool :=
  match a, b with
  | Rel _ o m true, Acq _ o' m' _ => N.eqb o o' && String.eqb m m'
  | Rel _ o m false, Acq _ o' m' true => N.eqb o o' && String.eqb m m'
  | Post _ k, Await _ k' => N.eqb k k'
  | _, _ => false
  end.

Inductive hb (tr : list ev) : nat -> nat -> Prop :=
| hb_po : forall i j a b, i < j -> at_ tr i a -> at_ tr j b -> thr a = thr b -> hb tr i j
| hb_sw : forall i j a b, i < j -> at_ tr i a -> at_ tr j b -> sw a b = true -> hb tr i j
| hb_trans : forall i j k, hb tr i j -> hb tr j k -> hb tr i k.

(* thread t holds lock (o,m) in mode x just before step i *)
Definition holds (tr : list ev) (i : nat) (t : tid) (o : obj) (m : string) (x : bool) : Prop :=
  exists a, a < i /\ at_ tr a (Acq t o m x) /\ forall r, a < r < i -> ~ at_ tr r (Rel t o m x).

(* mutual exclusion of sync.Mutex / sync.RWMutex: an acquire succeeds only when every current
   holder is a reader and the acquire itself is a read acquire *)
Definition wf_locks (tr : list ev) : Prop :=
  forall a t o m x t' x', at_ tr a (Acq t o m x) -> holds tr a t' o m x' -> x = false /\ x' = false.

(* an Await returns only after a Post on the same edge *)
Definition wf_edges (tr : list ev) : Prop :=
  forall q t k, at_ tr q (Await t k) -> exists p t', p < q /\ at_ tr p (Post t' k).

Section Dynamic.
  Variable tbl : list site.
  Definition site_at (s : nat) : option site := nth_error tbl s.

  (* two accesses, by different goroutines, to the same field of the same object, not both reads
     and not both atomic *)
  Definition conflict (tr : list ev) (i j : nat) : Prop :=
    exists t t' o s s' a b,
      i < j /\ at_ tr i (Acc t o s) /\ at_ tr j (Acc t' o s') /\ t <> t' /\
      site_at s = Some a /\ site_at s' = Some b /\
      same_loc a b = true /\ kinds_conflict (s_kind a) (s_kind b) = true.

  Definition race (tr : list ev) (i j : nat) : Prop := conflict tr i j /\ ~ hb tr i j.
  Definition race_free (tr : list ev) : Prop := forall i j, conflict tr i j -> hb tr i j.

  (* dynamic protection of one pair *)
  Definition lock_covered (tr : list ev) (i j : nat) : Prop :=
    exists t t' o s s' m x x',
      at_ tr i (Acc t o s) /\ at_ tr j (Acc t' o s') /\
      holds tr i t o m x /\ holds tr j t' o m x' /\ (x = true \/ x' = true).

  Definition edge_covered (tr : list ev) (i j : nat) : Prop :=
    exists p q k a b,
      at_ tr i a /\ at_ tr j b /\ i < p /\ p < q /\ q < j /\
      at_ tr p (Post (thr a) k) /\ at_ tr q (Await (thr b) k).

  (* what it means for a run to be a run of a program described by the table *)
  Variable singleton : string -> string -> bool.
  Variable owner : obj -> string -> string -> tid.   (* the one goroutine of a singleton role *)
  Variable pown : obj -> N -> tid.                   (* constructor thread (0) / lifecycle thread (k >= 1) *)
  Variable gate : obj -> N -> N.                     (* the gate that closes phase k *)

  Record conforms (tr : list ev) : Prop := {
    (* the locks the table lists at a site are really held there (syntactic Lock..Unlock regions) *)
    cf_locks : forall i t o s a m x,
        at_ tr i (Acc t o s) -> site_at s = Some a -> In (m, x) (s_locks a) -> holds tr i t o m x;
    (* sites reachable only from a singleton role are executed by that role's one goroutine *)
    cf_single : forall i t o s a r,
        at_ tr i (Acc t o s) -> site_at s = Some a -> s_roles a = [r] ->
        singleton (s_struct a) r = true -> t = owner o (s_struct a) r;
    (* early-phase sites run on the phase owner, before it opens the phase gate *)
    cf_early : forall i t o s a,
        at_ tr i (Acc t o s) -> site_at s = Some a -> s_run a = false ->
        t = pown o (s_phase a) /\
        forall p t', at_ tr p (Post t' (gate o (s_phase a))) -> t' = t /\ i < p;
    (* any other goroutine reaches later-phase sites only through the gate *)
    cf_late : forall j t o s b p,
        at_ tr j (Acc t o s) -> site_at s = Some b -> (p < s_phase b)%N -> t <> pown o p ->
        exists q, q < j /\ at_ tr q (Await t (gate o p));
    (* hand-listed edge: a final site is reached only after every other goroutine that touched the
       object has signalled (wg.Done / return of the dependants' Stop) and been awaited *)
    cf_final : forall i j t t' o s s' a b,
        at_ tr i (Acc t o s) -> at_ tr j (Acc t' o s') -> t <> t' ->
        site_at s = Some a -> site_at s' = Some b -> same_loc a b = true ->
        before_final a b = true -> edge_covered tr i j
  }.
End Dynamic.

(* ------------------------------------------------------------------ instance-level side checks *)
(* every go statement that starts a singleton role sits in one of the allowed launcher functions *)
Definition launch_ok (singletons : list (string * string * list string))
           (go_sites : list (string * string * string)) : bool :=
  forallb (fun g => let '(st, role, launcher) := g in
     forallb (fun sg => let '(st', role', allowed) := sg in
        negb (String.eqb st st' && String.eqb role role') ||
        existsb (String.eqb launcher) allowed) singletons) go_sites.

Definition singleton_of (singletons : list (string * string * list string)) (st r : string) : bool :=
  existsb (fun sg => let '(st', r', _) := sg in String.eqb st st' && String.eqb r r') singletons.

Definition has_struct (tbl : list site) (st : string) : bool :=
  existsb (fun a => String.eqb (s_struct a) st) tbl.

(* number of ordered pairs that conflict, are both in the running phase and are protected by a
   common lock: shows the check is not vacuous on the generated table *)
Definition lock_protected_pairs (tbl : list site) : nat :=
  length (flat_map (fun a => filter (fun b =>
     same_loc a b && kinds_conflict (s_kind a) (s_kind b) &&
     s_run a && s_run b && common_lock a b) tbl) tbl).
