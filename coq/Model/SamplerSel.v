(* Executable model of sampler selection (C14):
     config/config.go        IsLegacyAPIKey, GetKeyFields
     config/file_config.go   DetermineSamplerKey, GetSamplerConfigForDestName, GetSamplingKeyFieldsForDestName
     types/payload.go        NewCoreFieldsUnmarshaler (which fields are extracted at ingestion)
     collect/collector_worker.go  processSpan (trace takes the first span's destination),
                                  makeDecision (sampler key -> sampler, memoize, decide)
     sample/sample.go        GetSamplerImplementationForKey

   Strings are byte lists (API keys are classified byte by byte).  The rules file is an
   association list name -> sampler definition (Go map: names are unique; lookups use the first
   match).  A sampler definition is abstracted to its type tag and the field list it reads
   (GetSamplingFields).  No proofs in this file. *)
From Refinery Require Import Lib.Base Lib.Strs_samp.
From Refinery Require Gen.GenC14.

(* ---------- IsLegacyAPIKey ---------- *)
Definition in_range (lo hi c : N) : bool := (lo <=? c)%N && (c <=? hi)%N.
Definition is_digit (c : N) : bool := in_range 48 57 c.
Definition is_hex_lower (c : N) : bool := is_digit c || in_range 97 102 c.     (* 0-9 a-f *)
Definition is_lower (c : N) : bool := in_range 97 122 c.                       (* a-z *)
Definition is_alnum_lower (c : N) : bool := is_digit c || is_lower c.          (* 0-9 a-z *)

Definition is_legacy (k : str) : bool :=
  if (length k =? 32)%nat then forallb is_hex_lower k
  else if (length k =? 64)%nat then
    match k with
    | h :: c :: x :: i :: c2 :: us :: rest =>
        (h =? 104)%N && (c =? 99)%N &&                      (* key[:2] == "hc" *)
        (i =? 105)%N && (c2 =? 99)%N && (us =? 95)%N &&     (* key[3:6] == "ic_" *)
        is_lower x &&                                       (* key[2] in a..z *)
        forallb is_alnum_lower rest
    | _ => false
    end
  else false.

(* ---------- DetermineSamplerKey ---------- *)
Definition DOT : N := 46%N.
Definition sampler_key (prefix key env dataset : str) : str :=
  if negb (is_legacy key) then env
  else match prefix with
       | [] => dataset
       | _ => prefix ++ [DOT] ++ dataset
       end.

(* ---------- rules: name -> definition ---------- *)
Record sdef := { sd_type : N; sd_fields : list str }.
Definition rules := list (str * sdef).

Fixpoint rfind (name : str) (r : rules) : option sdef :=
  match r with
  | [] => None
  | (n, d) :: rest => if str_eqb name n then Some d else rfind name rest
  end.

Definition DEFAULT : str := u "__default__".

(* GetSamplerConfigForDestName / GetSamplingKeyFieldsForDestName: exact name, else __default__ *)
Definition lookup (r : rules) (name : str) : option sdef :=
  match rfind name r with
  | Some d => Some d
  | None => rfind DEFAULT r
  end.

Definition fields_for (r : rules) (name : str) : list str :=
  match lookup r name with Some d => sd_fields d | None => [] end.

(* ---------- config.GetKeyFields ---------- *)
Definition ROOTP14 : str := u GenC14.root_prefix.
Definition COMPP : str := u GenC14.computed_prefix.

(* slices.Compact: drop consecutive duplicates *)
Fixpoint compact (l : list str) : list str :=
  match l with
  | [] => []
  | x :: r => match r with
              | [] => [x]
              | y :: _ => if str_eqb x y then compact r else x :: compact r
              end
  end.

(* (allFields, nonRootFields).  Empty field names are skipped. *)
Definition get_key_fields (fields0 : list str) : list str * list str :=
  let fields := filter (fun f => negb (str_eqb f [])) fields0 in
  let rootf := map (fun f => skipn (length ROOTP14) f) (filter (has_prefix ROOTP14) fields) in
  let nonroot := filter (fun f => negb (has_prefix ROOTP14 f) && negb (has_prefix COMPP f)) fields in
  match rootf, nonroot with
  | [], [] => ([], [])
  | [], _ => (nonroot, nonroot)
  | _, _ => (compact (rootf ++ nonroot), nonroot)
  end.

(* ---------- the two moments ---------- *)
Record dest := { d_key : str; d_env : str; d_dataset : str }.   (* what an event arrives with *)

(* ingestion (NewCoreFieldsUnmarshaler): fields extracted from every event of this destination *)
Definition ingest_fields (prefix : str) (r : rules) (d : dest) : list str :=
  fst (get_key_fields (fields_for r (sampler_key prefix (d_key d) (d_env d) (d_dataset d)))).

(* decision (processSpan + makeDecision): the trace carries its first span's destination;
   the sampler is the definition looked up under the sampler key *)
Definition trace_dest (first : dest) (later : list dest) : dest := first.

Definition decide_sampler (prefix : str) (r : rules) (first : dest) (later : list dest) : option sdef :=
  let d := trace_dest first later in
  lookup r (sampler_key prefix (d_key d) (d_env d) (d_dataset d)).

(* what the selected sampler reads: all key fields on the root span, non-root ones elsewhere *)
Definition sampler_reads (s : option sdef) : list str * list str :=
  get_key_fields (match s with Some d => sd_fields d | None => [] end).

(* ---------- route layer: the dataset of a classic-key request ----------
   route.getDatasetFromRequest: the {datasetName} path segment (the mux matches on the ENCODED path)
   is percent-decoded and nothing else: "%XX" is the byte XX, every other byte, '+' included,
   stands for itself; a '%' not followed by two hex digits is an error (the request is rejected). *)
Definition hexval (c : N) : option N :=
  if in_range 48 57 c then Some (c - 48)%N
  else if in_range 97 102 c then Some (c - 87)%N
  else if in_range 65 70 c then Some (c - 55)%N
  else None.

Fixpoint pct_decode (l : str) : option str :=
  match l with
  | [] => Some []
  | c :: r =>
      if (c =? 37)%N then
        match r with
        | h1 :: h2 :: r' =>
            match hexval h1, hexval h2 with
            | Some a, Some b => option_map (cons (16 * a + b)%N) (pct_decode r')
            | _, _ => None
            end
        | _ => None
        end
      else option_map (cons c) (pct_decode r)
  end.
