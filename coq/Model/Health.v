(* Executable model of internal/health/health.go (Health) and the timed specification of C30.
   Time is Z nanoseconds; subsystems are N.

   Go                                         model
   --                                         -----
   Register(k, timeout)                       HReg k to      timeouts[k]=to; readies[k]=false; timeLeft[k]=-1
   Unregister(k)                              HUnreg k       delete timeouts/timeLeft[k]; readies[k]=false
   Ready(k, b)                                HReady k b     ignored unless k in timeouts; readies[k]=b; timeLeft[k]=timeouts[k]
   one iteration of the ticker() loop         HTick          every positive timeLeft: -= TickerTime, clamped at 0
   (fake) clock moving forward                HAdv d         no effect on Health's own state
   IsAlive()                                  HAlive         no timeLeft entry equals 0
   IsReady()                                  HIsReady       readies non-empty, every timeLeft > 0, every readies true

   The alives map only drives log lines and is not modelled.  Map iteration order never matters:
   the ticker updates every entry independently and the queries are conjunctions. *)
From Refinery Require Import Lib.Base.

Inductive hop :=
| HReg (k : N) (to : Z) | HUnreg (k : N) | HReady (k : N) (b : bool)
| HTick | HAdv (d : Z) | HAlive | HIsReady.

Inductive hout := HNone | HBool (b : bool).

Record hstate := { timeouts : amap Z; timeLeft : amap Z; readies : amap bool }.
Definition hinit : hstate := {| timeouts := []; timeLeft := []; readies := [] |}.

(* if timeLeft > 0 { timeLeft -= TickerTime; if timeLeft < 0 { timeLeft = 0 } } *)
Definition dec (T c : Z) : Z := if 0 <? c then Z.max 0 (c - T) else c.
Definition tick_all (T : Z) (m : amap Z) : amap Z := map (fun kv => (fst kv, dec T (snd kv))) m.

Definition check_alive (s : hstate) : bool := forallb (fun kv => negb (snd kv =? 0)) (timeLeft s).
Definition check_ready (s : hstate) : bool :=
  match readies s with
  | [] => false
  | _ => forallb (fun kv => 0 <? snd kv) (timeLeft s) && forallb (fun kv : N * bool => snd kv) (readies s)
  end.

Definition hstep (T : Z) (s : hstate) (o : hop) : hstate * hout :=
  match o with
  | HReg k to => ({| timeouts := aset k to (timeouts s); timeLeft := aset k (-1) (timeLeft s);
                     readies := aset k false (readies s) |}, HNone)
  | HUnreg k => ({| timeouts := aremove k (timeouts s); timeLeft := aremove k (timeLeft s);
                    readies := aset k false (readies s) |}, HNone)
  | HReady k b => match alookup k (timeouts s) with
                  | Some to => ({| timeouts := timeouts s; timeLeft := aset k to (timeLeft s);
                                   readies := aset k b (readies s) |}, HNone)
                  | None => (s, HNone)
                  end
  | HTick => ({| timeouts := timeouts s; timeLeft := tick_all T (timeLeft s); readies := readies s |}, HNone)
  | HAdv _ => (s, HNone)
  | HAlive => (s, HBool (check_alive s))
  | HIsReady => (s, HBool (check_ready s))
  end.

Fixpoint hrun (T : Z) (s : hstate) (ops : list hop) : list hout :=
  match ops with
  | [] => []
  | o :: r => let '(s', out) := hstep T s o in out :: hrun T s' r
  end.
Fixpoint hfinal (T : Z) (s : hstate) (ops : list hop) : hstate :=
  match ops with [] => s | o :: r => hfinal T (fst (hstep T s o)) r end.

(* ---------------- the specification: registrations, last reports, ticks counted ---------------- *)
(* A registered subsystem: its timeout and, if it has reported since it (last) registered, the
   flag of the latest report, the number of health ticks processed since that report, and the
   instant of that report. *)
Record sub := { s_to : Z; s_rep : option (bool * N * Z) }.
Record hspec := { h_now : Z; h_nt : Z;            (* clock; instant of the next health tick *)
                  subs : amap sub;                (* currently registered subsystems *)
                  unreg : list N }.               (* unregistered and not registered again since *)
Definition sinit (T t0 : Z) : hspec := {| h_now := t0; h_nt := t0 + T; subs := []; unreg := [] |}.

Definition nremove (k : N) (l : list N) : list N := filter (fun x => negb (N.eqb k x)) l.

(* the subsystem's timeout has run out, counted in whole ticks since the latest report
   (a negative timeout never runs out: the code only counts positive counters down) *)
Definition dead_sub (T : Z) (sb : sub) : bool :=
  match s_rep sb with
  | Some (_, n, _) => (0 <=? s_to sb) && (s_to sb <=? Z.of_N n * T)
  | None => false
  end.
(* reported, and fewer whole ticks than the timeout have gone by since *)
Definition fresh_sub (T : Z) (sb : sub) : bool :=
  match s_rep sb with
  | Some (_, n, _) => Z.of_N n * T <? s_to sb
  | None => false
  end.
Definition flag_sub (sb : sub) : bool :=
  match s_rep sb with Some (b, _, _) => b | None => false end.

Definition spec_alive (T : Z) (sp : hspec) : bool :=
  forallb (fun kv => negb (dead_sub T (snd kv))) (subs sp).
Definition spec_ready (T : Z) (sp : hspec) : bool :=
  negb (match subs sp with [] => true | _ => false end) &&
  (match unreg sp with [] => true | _ => false end) &&
  forallb (fun kv => fresh_sub T (snd kv) && flag_sub (snd kv)) (subs sp).

Definition tick_sub (sb : sub) : sub :=
  {| s_to := s_to sb;
     s_rep := match s_rep sb with Some (b, n, r) => Some (b, N.succ n, r) | None => None end |}.

Definition sstep (T : Z) (sp : hspec) (o : hop) : hspec * hout :=
  match o with
  | HReg k to => ({| h_now := h_now sp; h_nt := h_nt sp;
                     subs := aset k {| s_to := to; s_rep := None |} (subs sp);
                     unreg := nremove k (unreg sp) |}, HNone)
  | HUnreg k => ({| h_now := h_now sp; h_nt := h_nt sp; subs := aremove k (subs sp);
                    unreg := k :: nremove k (unreg sp) |}, HNone)
  | HReady k b => match alookup k (subs sp) with
                  | Some sb => ({| h_now := h_now sp; h_nt := h_nt sp;
                                   subs := aset k {| s_to := s_to sb; s_rep := Some (b, 0%N, h_now sp) |} (subs sp);
                                   unreg := unreg sp |}, HNone)
                  | None => (sp, HNone)
                  end
  | HTick => ({| h_now := h_now sp; h_nt := h_nt sp + T;
                 subs := map (fun kv => (fst kv, tick_sub (snd kv))) (subs sp); unreg := unreg sp |}, HNone)
  | HAdv d => ({| h_now := h_now sp + d; h_nt := h_nt sp; subs := subs sp; unreg := unreg sp |}, HNone)
  | HAlive => (sp, HBool (spec_alive T sp))
  | HIsReady => (sp, HBool (spec_ready T sp))
  end.

Fixpoint srun (T : Z) (sp : hspec) (ops : list hop) : list hout :=
  match ops with
  | [] => []
  | o :: r => let '(sp', out) := sstep T sp o in out :: srun T sp' r
  end.
Fixpoint sfinal (T : Z) (sp : hspec) (ops : list hop) : hspec :=
  match ops with [] => sp | o :: r => sfinal T (fst (sstep T sp o)) r end.

(* ---------------- timed histories: the ticker fires every T ---------------- *)
(* A tick is processed exactly at the instant it is due; the clock never moves past a due tick and
   never backwards.  Operations that fall on a tick instant may come before or after the tick. *)
Definition op_wf (sp : hspec) (o : hop) : bool :=
  match o with
  | HTick => h_now sp =? h_nt sp
  | HAdv d => (0 <=? d) && (h_now sp + d <=? h_nt sp)
  | _ => true
  end.
Fixpoint wf_from (T : Z) (sp : hspec) (ops : list hop) : bool :=
  match ops with
  | [] => true
  | o :: r => op_wf sp o && wf_from T (fst (sstep T sp o)) r
  end.
Definition wf (T t0 : Z) (ops : list hop) : bool := wf_from T (sinit T t0) ops.
