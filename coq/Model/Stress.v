(* Executable model of collect/stressRelief.go (StressRelief) and the specification of C15.
   Time is Z nanoseconds; levels are N (Go uint); report keys are N, key 0 is the node itself.

   Go                                       model
   --                                       -----
   UpdateFromConfig()                       SConfig c     mode / ActivationLevel / DeactivationLevel / MinimumActivationDuration
   onStressLevelUpdate("id|lvl")            SPeer k lvl   stressLevels[k] = (lvl, now)
   clock.Advance(d)                         SAdv d
   Recalc()                                 SRecalc local local = uint(max_i 100*algorithm_i(ratio_i)), the value Recalc returns
                                                          (float sqrt / atan of metric ratios: an input of the model, see notes)
     clusterStressLevel(local)                            stressLevels[self] = (local, now); drop entries with now - ts > PeerEntryTimeout;
                                                          uint(sqrt(sum lvl^2 over nonzero / max 1 #nonzero))   -- integer model N.sqrt (total / n)
     overall = max(cluster, local); mode switch with stayOnUntil
   Stressed(), stress_level gauge           fields of the record produced by SRecalc *)
From Refinery Require Import Lib.Base.

Inductive smode := MNever | MMonitor | MAlways.
Record scfg := { c_mode : smode; c_act : N; c_deact : N; c_mind : Z }.

Inductive sop := SRecalc (local : N) | SPeer (k : N) (lvl : N) | SAdv (d : Z) | SConfig (c : scfg).

(* what one recalculation shows: instant, configuration in force, own level, cluster level,
   the level acted on, and whether relief is on afterwards *)
Record srec := { r_t : Z; r_cfg : scfg; r_local : N; r_cluster : N; r_level : N; r_on : bool }.

Record sstate := { now : Z; cfg : scfg; stressed : bool; stayOn : option Z;   (* None = zero time.Time *)
                   levels : amap (N * Z) }.                                   (* key -> (level, timestamp) *)
Definition sinit (t0 : Z) (c : scfg) : sstate :=
  {| now := t0; cfg := c; stressed := false; stayOn := None; levels := [] |}.

(* s.Clock.Since(report.timestamp) > PeerEntryTimeout  -> deleted *)
Definition recent (PT nw : Z) (kv : N * (N * Z)) : bool := negb (PT <? nw - snd (snd kv)).
Definition nonzero (kv : N * (N * Z)) : bool := negb (N.eqb (fst (snd kv)) 0).
Definition sumsq (m : amap (N * Z)) : N := fold_right (fun kv acc => (fst (snd kv) * fst (snd kv) + acc)%N) 0%N m.
Definition count1 (m : amap (N * Z)) : N := match m with [] => 1%N | _ => N.of_nat (length m) end.
(* integer part of the root mean square of the nonzero levels of m *)
Definition rms (m : amap (N * Z)) : N :=
  let nz := filter nonzero m in N.sqrt (sumsq nz / count1 nz).

(* now.After(stayOnUntil) *)
Definition after (nw : Z) (st : option Z) : bool := match st with None => true | Some t => t <? nw end.

(* the mode switch of Recalc: new (stressed, stayOnUntil) *)
Definition switch (c : scfg) (nw : Z) (lvl : N) (on : bool) (st : option Z) : bool * option Z :=
  match c_mode c with
  | MNever => (false, st)
  | MAlways => (true, st)
  | MMonitor =>
      let s1 := on || (c_act c <=? lvl)%N in
      let st1 := if s1 && (c_deact c <=? lvl)%N then Some (nw + c_mind c) else st in
      let s2 := if s1 && (lvl <? c_deact c)%N && after nw st1 then false else s1 in
      (s2, st1)
  end.

Definition sstep (PT : Z) (s : sstate) (o : sop) : sstate * option srec :=
  match o with
  | SRecalc local =>
      let kept := filter (recent PT (now s)) (aset 0%N (local, now s) (levels s)) in
      let cluster := rms kept in
      let lvl := N.max cluster local in
      let '(on', st') := switch (cfg s) (now s) lvl (stressed s) (stayOn s) in
      ({| now := now s; cfg := cfg s; stressed := on'; stayOn := st'; levels := kept |},
       Some {| r_t := now s; r_cfg := cfg s; r_local := local; r_cluster := cluster; r_level := lvl; r_on := on' |})
  | SPeer k lvl =>
      ({| now := now s; cfg := cfg s; stressed := stressed s; stayOn := stayOn s;
          levels := aset k (lvl, now s) (levels s) |}, None)
  | SAdv d =>
      ({| now := now s + d; cfg := cfg s; stressed := stressed s; stayOn := stayOn s; levels := levels s |}, None)
  | SConfig c =>
      ({| now := now s; cfg := c; stressed := stressed s; stayOn := stayOn s; levels := levels s |}, None)
  end.

(* the trace of recalculations, oldest first *)
Fixpoint srun (PT : Z) (s : sstate) (ops : list sop) : list srec :=
  match ops with
  | [] => []
  | o :: r => let '(s', out) := sstep PT s o in
              match out with Some x => x :: srun PT s' r | None => srun PT s' r end
  end.

(* ---------------- specification of the level: latest reports, filtered by age when used ------------- *)
Record lspec := { l_now : Z; reports : amap (N * Z) }.      (* latest report of every key, never deleted *)
Definition linit (t0 : Z) : lspec := {| l_now := t0; reports := [] |}.

Definition lstep (PT : Z) (sp : lspec) (o : sop) : lspec * option (N * N) :=   (* (cluster, level) *)
  match o with
  | SRecalc local =>
      let rs := aset 0%N (local, l_now sp) (reports sp) in
      let cluster := rms (filter (recent PT (l_now sp)) rs) in
      ({| l_now := l_now sp; reports := rs |}, Some (cluster, N.max cluster local))
  | SPeer k lvl => ({| l_now := l_now sp; reports := aset k (lvl, l_now sp) (reports sp) |}, None)
  | SAdv d => ({| l_now := l_now sp + d; reports := reports sp |}, None)
  | SConfig _ => (sp, None)
  end.
Fixpoint lrun (PT : Z) (sp : lspec) (ops : list sop) : list (N * N) :=
  match ops with
  | [] => []
  | o :: r => let '(sp', out) := lstep PT sp o in
              match out with Some x => x :: lrun PT sp' r | None => lrun PT sp' r end
  end.

Definition op_ok (o : sop) : bool := match o with SAdv d => 0 <=? d | _ => true end.
Definition ops_ok (ops : list sop) : bool := forallb op_ok ops.
(* every reported level (own and peers') is at most B *)
Definition op_le (B : N) (o : sop) : bool :=
  match o with SRecalc l => (l <=? B)%N | SPeer _ l => (l <=? B)%N | _ => true end.

(* ---------------- specification of the switch: a function of the observable trace ------------- *)
(* past is newest first *)
Definition on_of (past : list srec) : bool := match past with [] => false | q :: _ => r_on q end.
Definition is_monitor (q : srec) : bool := match c_mode (r_cfg q) with MMonitor => true | _ => false end.
(* the most recent recalculation in monitor mode that left relief on with the level at or above the
   DeactivationLevel then in force *)
Definition held (q : srec) : bool := is_monitor q && r_on q && (c_deact (r_cfg q) <=? r_level q)%N.
Definition last_above (past : list srec) : option srec := find held past.
(* more than the MinimumActivationDuration then in force has passed since *)
Definition hold_over (past : list srec) (nw : Z) : bool :=
  match last_above past with Some q => r_t q + c_mind (r_cfg q) <? nw | None => true end.

Definition expected_on (past : list srec) (c : scfg) (nw : Z) (lvl : N) : bool :=
  match c_mode c with
  | MNever => false
  | MAlways => true
  | MMonitor =>
      let s1 := on_of past || (c_act c <=? lvl)%N in
      s1 && negb ((lvl <? c_deact c)%N && hold_over past nw)
  end.

(* the whole trace (oldest first) follows expected_on; past accumulates newest first *)
Fixpoint trace_ok (past : list srec) (tr : list srec) : bool :=
  match tr with
  | [] => true
  | q :: r => Bool.eqb (r_on q) (expected_on past (r_cfg q) (r_t q) (r_level q)) && trace_ok (q :: past) r
  end.
