(* C09 — the dynamic-sampler key (sample/trace_key.go newTraceKey / build / AddAsString), only as
   far as C09 needs it: how values are turned into text and that the key is built from per-field
   SETS of texts.  Below the 100-distinct-value cap only (the cap arithmetic and key
   separation belong to C11); wyhash is assumed collision-free on the values of one
   trace (the map keyed by hash then is a set of texts).
   [fmtf] is strconv.AppendFloat(f, 'f', -1, 64), an oracle like [fmtv].  No proofs here. *)
From Refinery Require Import Lib.Base Model.Values Model.Rules Gen.GenC08.
Local Open Scope string_scope.
Local Open Scope Z_scope.

(* sorted insertion without duplicates: sort.Strings over the values of a hash-set *)
Fixpoint sinsert (x : string) (l : list string) : list string :=
  match l with
  | [] => [x]
  | y :: r => match String.compare x y with
              | Lt => x :: y :: r
              | Eq => y :: r
              | Gt => y :: sinsert x r
              end
  end.
Definition sset (l : list string) : list string := fold_right sinsert [] l.

(* sort.Strings on the configured field list (duplicates kept) *)
Fixpoint sinsert_dup (x : string) (l : list string) : list string :=
  match l with
  | [] => [x]
  | y :: r => match String.compare x y with
              | Gt => y :: sinsert_dup x r
              | _ => x :: y :: r
              end
  end.
Definition ssort (l : list string) : list string := fold_right sinsert_dup [] l.

Definition bullet : string := bs [226; 128; 162]%N.       (* "•" in UTF-8 *)

Section Key.
  Variable fmtf : dy -> string.      (* 'f' -1 *)

  (* appendValueAsString: per-span key fields (AddAsString) and, since repo commit "fix: whole
     numbers stringify the same ...", root. key fields as well; whole floats print as integers
     since "fix: whole float64 values contribute their exact integer text to the sample key" *)
  Definition key_str (v : sval) : string :=
    match v with
    | SStr s => s
    | SInt z => dec z
    | SF64 d => f64_str fmtf d     (* whole numbers below 2^63: the integer text; else 'f' -1 *)
    | SBool b => bool_str b
    | SNil => "<nil>"
    | SOther t => t
    end.

  Definition field_texts (f : string) (spans : list span) : list string :=
    filter_some (map (fun sp => option_map key_str (sget f sp)) spans).

  (* the loop over Values(i): the first text is always written, a later one only when it differs
     from the previous text (repo main commit "fix: trace key keeps an empty-string field value",
     family samp / C11) — on a sorted duplicate-free list that writes every text *)
  Fixpoint emit_vals (first : bool) (prev : string) (l : list string) : string :=
    match l with
    | [] => ""
    | s :: r => (if first || negb (String.eqb s prev) then s ++ bullet else "") ++ emit_vals false s r
    end.

  Definition field_part (spans : list span) (f : string) : string :=
    match sset (field_texts f spans) with
    | [] => ""
    | vs => emit_vals true "" vs ++ ","
    end.

  Definition root_part (root : option span) (f : string) : string :=
    match root with
    | None => ""
    | Some rt => match sget f rt with
                 | Some v => key_str v ++ ","
                 | None => ""
                 end
    end.

  Definition key_of (fields : list string) (use_len : bool) (t : trace) : string :=
    let fs := ssort fields in
    let nonroot := filter (fun f => negb (String.prefix root_prefix f)) fs in
    let rootonly := filter_some (map strip_root fs) in
    String.concat "" (map (field_part (t_spans t)) nonroot) ++
    String.concat "" (map (root_part (t_root t)) rootonly) ++
    (if use_len then dec (Z.of_nat (length (t_spans t))) else "").
End Key.
