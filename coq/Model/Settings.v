(* Executable model of how refinery resolves one setting of the main config:
     config/cmdenv.go          NewCmdEnvOptions (go-flags: a flag beats its env var), applyCmdEnvTags
                               (first cmdenv tag whose option is non-zero wins; list options keep all elements)
     config/configLoadHelpers  loadConfigsInto (files in order, later files override, maps merge key-wise),
                               applyConfigInto (defaults.Set on zero values, then ApplyTags, then env expansion),
                               expandEnvVarsInString / expandEnvVarsInConfig
   A zero value ("" / empty list / empty map) is "unset" everywhere, exactly as defaults.Set and
   reflect.Value.IsZero treat it.  The tables (settings with default and cmdenv tags, CmdEnv options,
   documented env vars) are generated from the source into Gen/GenC29.v.                              *)
From Refinery Require Import Lib.Base Gen.GenC29.
Local Open Scope string_scope.

(* ---------------- values ---------------- *)
Inductive sval := VStr (s : string) | VList (l : list string) | VMap (m : list (string * string)).
Definition is_set (v : sval) : bool :=
  match v with
  | VStr s => negb (String.eqb s "")
  | VList l => match l with [] => false | _ => true end
  | VMap m => match m with [] => false | _ => true end
  end.
Definition zero_like (v : sval) : sval :=
  match v with VStr _ => VStr "" | VList _ => VList [] | VMap _ => VMap [] end.

(* ---------------- precedence ---------------- *)
Record sources := {
  s_cmd : list (option sval * option sval);   (* per cmdenv tag, in tag order: (command-line flag, environment variable) *)
  s_files : list (option sval);               (* per config file, in the order given; None = the file does not name the setting *)
  s_default : sval                            (* the default: tag (zero when there is none) *)
}.
(* go-flags: an option given on the command line is not overridden by its environment variable *)
Definition cmd_of (p : option sval * option sval) : option sval :=
  match fst p with Some v => Some v | None => snd p end.
Fixpoint first_set (l : list (option sval)) : option sval :=
  match l with
  | [] => None
  | Some v :: r => if is_set v then Some v else first_set r
  | None :: r => first_set r
  end.
(* yaml decoding into the same struct, file after file: scalars and lists are replaced, maps merge *)
Fixpoint map_put (k v : string) (m : list (string * string)) : list (string * string) :=
  match m with
  | [] => [(k, v)]
  | (k', v') :: r => if String.eqb k k' then (k, v) :: r else (k', v') :: map_put k v r
  end.
Definition merge_val (acc : option sval) (f : option sval) : option sval :=
  match f with
  | None => acc
  | Some (VMap m) => match acc with
                     | Some (VMap m0) => Some (VMap (fold_left (fun a kv => map_put (fst kv) (snd kv) a) m m0))
                     | _ => Some (VMap m)
                     end
  | Some v => Some v
  end.
Definition files_value (l : list (option sval)) : option sval := fold_left merge_val l None.

Definition resolve (s : sources) : sval :=
  match first_set (map cmd_of (s_cmd s)) with
  | Some v => v
  | None => match files_value (s_files s) with
            | Some v => if is_set v then v else s_default s
            | None => s_default s
            end
  end.

(* ---------------- ${VAR} expansion ---------------- *)
(* regexp `\${([^}]+)}`, leftmost non-overlapping, ReplaceAllStringFunc: one pass, the replacement is not
   rescanned; an unset (or empty) variable leaves the match as it is *)
Inductive xstate := XNorm | XDollar | XName (acc : string).
Definition dollar : ascii := "$"%char.
Definition lbrace : ascii := "{"%char.
Definition rbrace : ascii := "}"%char.
Definition subst (env : string -> string) (name : string) : string :=
  let v := env name in if String.eqb v "" then "${" ++ name ++ "}" else v.
Definition snoc (s : string) (c : ascii) : string := s ++ String c "".
Fixpoint xrun (env : string -> string) (st : xstate) (s : string) : string :=
  match s with
  | EmptyString => match st with XNorm => "" | XDollar => "$" | XName acc => "${" ++ acc end
  | String c r =>
      match st with
      | XNorm => if Ascii.eqb c dollar then xrun env XDollar r else String c (xrun env XNorm r)
      | XDollar => if Ascii.eqb c lbrace then xrun env (XName "") r
                   else if Ascii.eqb c dollar then String dollar (xrun env XDollar r)
                   else String dollar (String c (xrun env XNorm r))
      | XName acc => if Ascii.eqb c rbrace
                     then (if String.eqb acc "" then "${}" ++ xrun env XNorm r else subst env acc ++ xrun env XNorm r)
                     else xrun env (XName (snoc acc c)) r
      end
  end.
Definition expand (env : string -> string) (s : string) : string := xrun env XNorm s.

Definition expand_val (env : string -> string) (v : sval) : sval :=
  match v with
  | VStr s => VStr (expand env s)
  | VList l => VList (map (expand env) l)
  | VMap m => VMap (map (fun kv => (fst kv, expand env (snd kv))) m)
  end.

(* which Go field types expandEnvVarsInConfig rewrites, which it deliberately skips, and which would fall
   into its "unsupported type" default arm *)
Definition type_expanded (ty : string) : bool :=
  existsb (String.eqb ty) ["string"; "[]string"; "map[string]string"; "map[string]any"; "[]any"].
Definition type_skipped (ty : string) : bool :=
  existsb (String.eqb ty) ["*DefaultTrue"; "Duration"; "MemorySize"; "Level"; "bool"; "int"; "uint"; "uint64"].
(* does a value of this underlying type carry strings? *)
Fixpoint has_substring (needle hay : string) : bool :=
  match hay with
  | EmptyString => String.eqb needle ""
  | String _ r => String.prefix needle hay || has_substring needle r
  end.
Definition carries_strings (underlying : string) : bool := has_substring "string" underlying || has_substring "any" underlying.

Definition setting_row := (string * string * string * string * string)%type.
Definition row_path (r : setting_row) : string := fst (fst (fst (fst r))).
Definition row_type (r : setting_row) : string := snd (fst (fst (fst r))).
Definition row_under (r : setting_row) : string := snd (fst (fst r)).
Definition row_default (r : setting_row) : string := snd (fst r).
Definition row_cmdenv (r : setting_row) : string := snd r.

(* every setting is either rewritten or deliberately skipped, and every one that carries strings is rewritten *)
Definition expansion_covers (rows : list setting_row) : bool :=
  forallb (fun r => (type_expanded (row_type r) || type_skipped (row_type r)) &&
                    (negb (carries_strings (row_under r)) || type_expanded (row_type r))) rows.

Definition effective (env : string -> string) (ty : string) (s : sources) : sval :=
  if type_expanded ty then expand_val env (resolve s) else resolve s.

(* ---------------- documented names ---------------- *)
Fixpoint split_on (sep : ascii) (cur : string) (s : string) : list string :=
  match s with
  | EmptyString => [cur]
  | String c r => if Ascii.eqb c sep then cur :: split_on sep "" r else split_on sep (snoc cur c) r
  end.
Fixpoint trim_left (s : string) : string :=
  match s with String c r => if Ascii.eqb c " "%char then trim_left r else s | _ => s end.
Definition split_list (s : string) : list string :=
  if String.eqb s "" then [] else map trim_left (split_on ","%char "" s).

Definition opt_row := (string * string * string * string * string)%type.   (* field, type, long, env, delim *)
Definition opt_name (r : opt_row) : string := fst (fst (fst (fst r))).
Definition opt_long (r : opt_row) : string := snd (fst (fst r)).
Definition opt_env (r : opt_row) : string := snd (fst r).
Definition find_opt (opts : list opt_row) (name : string) : option opt_row :=
  find (fun r => String.eqb (opt_name r) name) opts.
Definition find_setting (rows : list setting_row) (path : string) : option setting_row :=
  find (fun r => String.eqb (row_path r) path) rows.

(* env names / long flags that really feed a setting, in precedence order *)
Definition real_envs (rows : list setting_row) (opts : list opt_row) (path : string) : option (list string * list string) :=
  match find_setting rows path with
  | None => None
  | Some r => let tags := split_list (row_cmdenv r) in
              let os := map (find_opt opts) tags in
              Some (map (fun o => match o with Some x => opt_env x | None => "?" end) os,
                    map (fun o => match o with Some x => opt_long x | None => "?" end) os)
  end.
Definition doc_row := (string * string * string * string)%type.   (* group, field, envvar text, commandline text *)
Definition doc_ok (rows : list setting_row) (opts : list opt_row) (d : doc_row) : bool :=
  let path := fst (fst (fst d)) ++ "." ++ snd (fst (fst d)) in
  match real_envs rows opts path with
  | None => false
  | Some (envs, longs) =>
      list_eqb String.eqb (split_list (snd (fst d))) envs &&
      match longs with l :: _ => String.eqb (snd d) l | [] => false end
  end.
Definition doc_mismatches (rows : list setting_row) (opts : list opt_row) (docs : list doc_row) : list (string * string) :=
  map (fun d => (fst (fst (fst d)), snd (fst (fst d)))) (filter (fun d => negb (doc_ok rows opts d)) docs).
(* does setting env variable [name] (alone) reach the setting? *)
Definition env_feeds (rows : list setting_row) (opts : list opt_row) (path name : string) : bool :=
  match real_envs rows opts path with
  | Some (envs, _) => existsb (String.eqb name) envs
  | None => false
  end.

(* the shape of the source the model relies on, and no more: the expansion regexp, "empty value = unset", the order
   defaults -> cmdenv -> expansion, and that the type switch of expandEnvVarsInConfig has an arm for every type the
   model says is rewritten and for every type it says is deliberately skipped. How an arm does its work (inline loop or
   a helper function) is not a shape fact: that elements are expanded and written back is established by the
   correspondence runs (lists and maps with ${...} in every element position). *)
Definition arm_labels : list string := flat_map split_list expand_type_switch.
Definition arms_cover (tys : list string) : bool := forallb (fun ty => existsb (String.eqb ty) arm_labels) tys.
Definition gen_shape_ok : bool :=
  expand_empty_value_is_unset && apply_order_defaults_cmdenv_expand &&
  list_eqb String.eqb expand_regex ["\${([^}]+)}"] &&
  arms_cover ["string"; "[]string"; "map[string]string"; "map[string]any"; "[]any"] &&
  arms_cover ["*DefaultTrue"; "Duration"; "MemorySize"; "Level"; "bool"; "int"; "uint"; "uint64"].
