(* Executable model of tools/convert for the part of C38 that is claimed:
   - config: a v1 setting named in config/metadata/configMeta.yaml (v1group/v1name) is written at its v2
     group/field with the same value (types hostport, url, int, bool, duration, string);
   - rules: tools/convert/ruleconvert.go convertRulesToNewConfig / transformSamplerMap: the top level becomes
     __default__, every section that has a Sampler key becomes a destination of that sampler type, keys are
     case-insensitive, ClearFrequencySec (seconds) becomes ClearFrequency (duration), AdjustmentInterval
     seconds become a duration, all other parameters keep name and value.
   Durations are integers (nanoseconds). *)
From Refinery Require Import Lib.Base Gen.GenC38.
Local Open Scope string_scope.

Fixpoint slookup {V} (k : string) (l : list (string * V)) : option V :=
  match l with [] => None | (k', v) :: r => if String.eqb k k' then Some v else slookup k r end.

(* ---------------- config ---------------- *)
Definition table := list (string * string).          (* v1 key ("Name" or "Group.Name") -> v2 path "Group.Field" *)
Definition convert_cfg (tbl : table) (c : list (string * string)) : list (string * string) :=
  flat_map (fun e => match slookup (fst e) c with Some v => [(snd e, v)] | None => [] end) tbl.

Definition row5 := (string * string * string * string * string)%type.
Fixpoint first_alt (s : string) : string :=     (* "A/B" -> "A" *)
  match s with
  | EmptyString => ""
  | String c r => if Ascii.eqb c "/"%char then "" else String c (first_alt r)
  end.
Definition row_v1key (r : row5) : string :=
  let g := fst (fst (fst (fst r))) in let n := snd (fst (fst (fst r))) in
  if String.eqb g "" then n else first_alt g ++ "." ++ n.
Definition row_v2path (r : row5) : string := snd (fst (fst r)) ++ "." ++ snd (fst r).
Definition gen_table : table := map (fun r => (row_v1key r, row_v2path r)) v1_table.

(* ---------------- rules ---------------- *)
(* one rule of a RulesBasedSampler: name / rate / drop / conditions as one canonical text, and the sampler nested in
   the rule (type "" = none) with its integer parameters *)
Record rule := { ru_text : string; ru_sub_type : string; ru_sub_params : list (string * Z) }.
Record section := { se_name : string; se_type : string;      (* "" = the section has no Sampler key *)
                    se_params : list (string * Z); se_fields : list string;
                    se_rules : list rule }.        (* RulesBasedSampler: the rules in order *)
Definition second : Z := 1000000000%Z.
Definition conv_param (p : string * Z) : string * Z :=
  if String.eqb (fst p) "ClearFrequencySec" then ("ClearFrequency", (snd p * second)%Z)
  else if String.eqb (fst p) "AdjustmentInterval" then ("AdjustmentInterval", (snd p * second)%Z)
  else p.
(* a sampler nested in a rule goes through the same key fix-ups as a top-level one (transformSamplerMap recurses
   into the elements of the rule array) *)
Definition conv_rule (r : rule) : rule :=
  {| ru_text := ru_text r; ru_sub_type := ru_sub_type r; ru_sub_params := map conv_param (ru_sub_params r) |}.
Definition conv_section (name : string) (s : section) : section :=
  {| se_name := name;
     se_type := if String.eqb (se_type s) "" then "DeterministicSampler" else se_type s;
     se_params := map conv_param (se_params s); se_fields := se_fields s; se_rules := map conv_rule (se_rules s) |}.
Definition has_sampler (s : section) : bool := negb (String.eqb (se_type s) "").
Definition convert_rules (dflt : section) (ds : list section) : list section :=
  conv_section "__default__" dflt :: map (fun s => conv_section (se_name s) s) (filter has_sampler ds).
Definition find_section (name : string) (l : list section) : option section :=
  find (fun s => String.eqb (se_name s) name) l.

Definition gen_shape_ok : bool :=
  default_sampler_type_is_deterministic && v1_files_go_through_template &&
  list_eqb String.eqb renamed_sampler_keys ["clearfrequencysec"; "adjustmentinterval"] &&
  list_eqb String.eqb convertible_sampler_types
    ["DeterministicSampler"; "DynamicSampler"; "EMADynamicSampler"; "RulesBasedSampler"; "TotalThroughputSampler"].

(* ---------------- what the converter writes for one setting, and what the v2 loader then uses ----------------
   tools/convert/helpers.go: nonDefaultOnly / nonZero / nonEmptyString / secondsToDuration / memorysize / choice /
   renderStringarray, selected by the field's valuetype in configMeta.yaml (templates/genfield.tmpl).
   Comparisons are on the printed form (fmt %v) of the v1 value. The v2 loader (C29) treats a zero value of a
   non-pointer field as "not set" and applies the struct default; *DefaultTrue fields keep an explicit false. *)
Record setting_in := {
  si_vt : string;            (* valuetype *)
  si_text : string;          (* the v1 value as printed *)
  si_mdefault : string;      (* documented default as printed *)
  si_choices : list string;
  si_v1 : string;            (* canonical v1 value (durations ns, sizes bytes, lists joined) *)
  si_sdefault : string;      (* canonical value the v2 loader uses when the setting is not named *)
  si_ptr : bool              (* the v2 field can hold an explicit zero (pointer type) *)
}.
Definition zero_text (s : string) : bool := String.eqb s "" || String.eqb s "0" || String.eqb s "false".
Definition is_in (x : string) (l : list string) : bool := existsb (String.eqb x) l.
Definition emits (s : setting_in) : bool :=
  let vt := si_vt s in
  if String.eqb vt "nondefault" then negb (String.eqb (si_text s) (si_mdefault s))
  else if String.eqb vt "nonzero" then negb (zero_text (si_text s))
  else if String.eqb vt "nonemptystring" || String.eqb vt "secondstoduration" || String.eqb vt "memorysize" ||
          String.eqb vt "stringarray" then negb (String.eqb (si_text s) "")
  else if String.eqb vt "choice" then negb (String.eqb (si_text s) (si_mdefault s)) && is_in (si_text s) (si_choices s)
  else false.                 (* showexample, assigndefault, conditional, map, unmapped v1 settings: never read *)
Definition loaded (s : setting_in) : string :=
  if emits s then (if zero_text (si_v1 s) && negb (si_ptr s) then si_sdefault s else si_v1 s)
  else si_sdefault s.
