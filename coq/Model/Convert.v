(* Executable model of tools/convert for the part of C38 that is claimed:
   - config: a v1 setting named in config/metadata/configMeta.yaml (v1group/v1name) is written at its v2
     group/field with the same value (types hostport, url, int, bool, duration, string);
   - rules: tools/convert/ruleconvert.go convertRulesToNewConfig / transformSamplerMap: the top level becomes
     __default__, every section that has a Sampler key becomes a destination of that sampler type, keys are
     case-insensitive, ClearFrequencySec (seconds) becomes ClearFrequency (duration), AdjustmentInterval
     seconds become a duration, all other parameters keep name and value.
   Durations are integers (nanoseconds). *)
From Refinery Require Import Lib.Base Gen.GenC38.
Local Open Scope string_scope.

Fixpoint slookup {V} (k : string) (l : list (string * V)) : option V :=
  match l with [] => None | (k', v) :: r => if String.eqb k k' then Some v else slookup k r end.

(* ---------------- config ---------------- *)
Definition table := list (string * string).          (* v1 key ("Name" or "Group.Name") -> v2 path "Group.Field" *)
Definition convert_cfg (tbl : table) (c : list (string * string)) : list (string * string) :=
  flat_map (fun e => match slookup (fst e) c with Some v => [(snd e, v)] | None => [] end) tbl.

Definition row5 := (string * string * string * string * string)%type.
Fixpoint first_alt (s : string) : string :=     (* "A/B" -> "A" *)
  match s with
  | EmptyString => ""
  | String c r => if Ascii.eqb c "/"%char then "" else String c (first_alt r)
  end.
Definition row_v1key (r : row5) : string :=
  let g := fst (fst (fst (fst r))) in let n := snd (fst (fst (fst r))) in
  if String.eqb g "" then n else first_alt g ++ "." ++ n.
Definition row_v2path (r : row5) : string := snd (fst (fst r)) ++ "." ++ snd (fst r).
Definition gen_table : table := map (fun r => (row_v1key r, row_v2path r)) v1_table.

(* ---------------- rules ---------------- *)
Record section := { se_name : string; se_type : string;      (* "" = the section has no Sampler key *)
                    se_params : list (string * Z); se_fields : list string }.
Definition second : Z := 1000000000%Z.
Definition conv_param (p : string * Z) : string * Z :=
  if String.eqb (fst p) "ClearFrequencySec" then ("ClearFrequency", (snd p * second)%Z)
  else if String.eqb (fst p) "AdjustmentInterval" then ("AdjustmentInterval", (snd p * second)%Z)
  else p.
Definition conv_section (name : string) (s : section) : section :=
  {| se_name := name;
     se_type := if String.eqb (se_type s) "" then "DeterministicSampler" else se_type s;
     se_params := map conv_param (se_params s); se_fields := se_fields s |}.
Definition has_sampler (s : section) : bool := negb (String.eqb (se_type s) "").
Definition convert_rules (dflt : section) (ds : list section) : list section :=
  conv_section "__default__" dflt :: map (fun s => conv_section (se_name s) s) (filter has_sampler ds).
Definition find_section (name : string) (l : list section) : option section :=
  find (fun s => String.eqb (se_name s) name) l.

Definition gen_shape_ok : bool :=
  default_sampler_type_is_deterministic && v1_files_go_through_template &&
  list_eqb String.eqb renamed_sampler_keys ["clearfrequencysec"; "adjustmentinterval"] &&
  list_eqb String.eqb convertible_sampler_types
    ["DeterministicSampler"; "DynamicSampler"; "EMADynamicSampler"; "RulesBasedSampler"; "TotalThroughputSampler"].
