(* Executable model of the shared dynsampler registry and the throughput-goal bookkeeping
   (C12, C13):
     sample/sample.go   makeDynsamplerKey, getSharedDynsamplerAndRecorder, createSampler(In),
                        GetSamplerImplementationForKey, GetDownstreamSampler, ClearDynsamplers,
                        updatePeerCounts, Start
     sample/{totalthroughput,ema_throughput,windowed_throughput}.go   createDynFor… (initial goal)
     collect/collector_worker.go   datasetSamplers (worker-local sampler cache), reload
     collect/collect.go            reload: ClearDynsamplers + reload signal to every worker

   A sampler definition is its type tag (3 dynamic, 4 emadynamic, 5 emathroughput, 6 windowed,
   7 totalthroughput), the vector of ALL fields of its Go configuration struct except FieldList
   (declaration order; names from Gen/GenC12.v; durations in ns, bools 0/1, floats by their
   IEEE bits) and its FieldList.  The registry key is a structured value; that Go's
   fmt.Sprintf("%s:%q:%s:%+v:%q", …) is injective on these values is an assumption exercised by the
   correspondence (instances are compared by pointer identity, never by key text).
   dynsampler-go is an ideal object: an instance is an id, its generation and its goal.
   No proofs in this file. *)
From Refinery Require Import Lib.Base Lib.Strs_samp.
From Refinery Require Gen.GenC12.

(* ---------- definitions ---------- *)
Record ddef := { dd_type : N; dd_params : list Z; dd_fields : list str }.

Definition fields_of_type (ty : N) : list (string * string * list string) :=
  if (ty =? 3)%N then GenC12.fields_dynamic
  else if (ty =? 4)%N then GenC12.fields_emadynamic
  else if (ty =? 5)%N then GenC12.fields_emathroughput
  else if (ty =? 6)%N then GenC12.fields_windowedthroughput
  else if (ty =? 7)%N then GenC12.fields_totalthroughput
  else [].

Definition param_names (ty : N) : list string :=
  filter (fun n => negb (String.eqb n "FieldList")) (map (fun x => fst (fst x)) (fields_of_type ty)).

Fixpoint index_of (n : string) (l : list string) : option nat :=
  match l with
  | [] => None
  | x :: r => if String.eqb n x then Some O else option_map S (index_of n r)
  end.

Definition param_in (name : string) (ty : N) (params : list Z) : Z :=
  match index_of name (param_names ty) with Some i => nth i params 0 | None => 0 end.

Definition is_throughput (ty : N) : bool := (ty =? 5)%N || (ty =? 6)%N || (ty =? 7)%N.
Definition goal_cfg (ty : N) (params : list Z) : Z := param_in "GoalThroughputPerSec" ty params.
Definition use_cluster (ty : N) (params : list Z) : bool :=
  is_throughput ty && negb (param_in "UseClusterSize" ty params =? 0).

(* the one parameter the pinned tree put into the key *)
Definition rate_name (ty : N) : string :=
  if (ty =? 3)%N then "SampleRate" else if (ty =? 4)%N then "GoalSampleRate" else "GoalThroughputPerSec".

(* ---------- registry key ---------- *)
Inductive scope := Top | Down.
Definition scope_eqb (a b : scope) : bool :=
  match a, b with Top, Top | Down, Down => true | _, _ => false end.

Record rkey := { k_scope : scope; k_prefix : str; k_type : N; k_params : list Z; k_fields : list str }.

Definition rkey_eqb (a b : rkey) : bool :=
  scope_eqb (k_scope a) (k_scope b) && str_eqb (k_prefix a) (k_prefix b) &&
  N.eqb (k_type a) (k_type b) && list_eqb Z.eqb (k_params a) (k_params b) &&
  list_eqb str_eqb (k_fields a) (k_fields b).

(* keyPrefix as the Go code builds it: the sampler key itself, or "rules:<sampler key>:" *)
Definition go_prefix (sc : scope) (name : str) : str :=
  match sc with Top => name | Down => u "rules:" ++ name ++ u ":" end.

Fixpoint join_sp (l : list str) : str :=
  match l with [] => [] | [x] => x | x :: r => x ++ 32%N :: join_sp r end.

(* fixed source: scope marker, quoted prefix, type, whole configuration, quoted sorted fields *)
Definition key_whole (sc : scope) (name : str) (d : ddef) : rkey :=
  {| k_scope := sc; k_prefix := go_prefix sc name; k_type := dd_type d;
     k_params := dd_params d; k_fields := ssort (dd_fields d) |}.

(* pinned tree: "%s:%s:%d:%v" of prefix, type, one rate, sorted fields ("[a b c]") *)
Definition key_legacy (sc : scope) (name : str) (d : ddef) : rkey :=
  {| k_scope := Top; k_prefix := go_prefix sc name; k_type := dd_type d;
     k_params := [param_in (rate_name (dd_type d)) (dd_type d) (dd_params d)];
     k_fields := [join_sp (ssort (dd_fields d))] |}.

(* the source as it is; whether the code really separates definitions like this is decided by the
   correspondence (pointer identity of the instances), not by a fact about the statement text *)
Definition key_of (sc : scope) (name : str) (d : ddef) : rkey := key_whole sc name d.

(* ---------- factory state ---------- *)
Record inst := { i_id : N; i_gen : N; i_goal : Z }.

Record fstate := {
  f_reg : list (rkey * inst);     (* sharedDynsamplers *)
  f_goals : list (rkey * Z);      (* goalThroughputConfigs *)
  f_next : N;                     (* ids handed out so far (ghost: instance identity) *)
  f_gen : N;                      (* number of ClearDynsamplers so far (ghost) *)
  f_peers : Z;                    (* peerCount *)
  f_src : option Z                (* what Peers.GetPeers() returns now: Some (number of peers) | None = error *)
}.

Definition finit : fstate :=
  {| f_reg := []; f_goals := []; f_next := 0%N; f_gen := 0%N; f_peers := 1; f_src := Some 1 |}.

Fixpoint kfind {V} (k : rkey) (m : list (rkey * V)) : option V :=
  match m with [] => None | (k', v) :: r => if rkey_eqb k k' then Some v else kfind k r end.
Fixpoint kremove {V} (k : rkey) (m : list (rkey * V)) : list (rkey * V) :=
  match m with [] => [] | (k', v) :: r => if rkey_eqb k k' then kremove k r else (k', v) :: kremove k r end.
Definition kset {V} (k : rkey) (v : V) (m : list (rkey * V)) : list (rkey * V) := (k, v) :: kremove k m.

(* Go: max(cfg/peerCount, 1) with truncating division *)
Definition node_goal (cfg peers : Z) : Z := Z.max (Z.quot cfg peers) 1.

(* updatePeerCounts *)
Definition new_peers (s : fstate) : Z :=
  match f_src s with Some n => if 0 <? n then n else f_peers s | None => f_peers s end.

Definition regoal (goals : list (rkey * Z)) (peers : Z) (e : rkey * inst) : rkey * inst :=
  let '(k, i) := e in
  if is_throughput (k_type k) then
    match kfind k goals with
    | Some cfg => (k, {| i_id := i_id i; i_gen := i_gen i; i_goal := node_goal cfg peers |})
    | None => e
    end
  else e.

Definition update_peer_counts (s : fstate) : fstate :=
  let p := new_peers s in
  {| f_reg := map (regoal (f_goals s) p) (f_reg s); f_goals := f_goals s; f_next := f_next s;
     f_gen := f_gen s; f_peers := p; f_src := f_src s |}.

(* goal a fresh dynsampler starts with: the configured goal; dynsampler-go's Start turns 0 into 100 *)
Definition init_goal (d : ddef) : Z :=
  if is_throughput (dd_type d) then
    let g := goal_cfg (dd_type d) (dd_params d) in if g =? 0 then 100 else g
  else 0.

(* createSampler for a dynsampler-backed definition; returns the instance id *)
Definition create (s : fstate) (sc : scope) (name : str) (d : ddef) : fstate * N :=
  let k := key_of sc name d in
  let '(reg1, next1, id) :=
    match kfind k (f_reg s) with
    | Some i => (f_reg s, f_next s, i_id i)
    | None => ((k, {| i_id := f_next s; i_gen := f_gen s; i_goal := init_goal d |}) :: f_reg s,
               N.succ (f_next s), f_next s)
    end in
  let goals1 := if use_cluster (dd_type d) (dd_params d)
                then kset k (goal_cfg (dd_type d) (dd_params d)) (f_goals s) else f_goals s in
  (update_peer_counts {| f_reg := reg1; f_goals := goals1; f_next := next1; f_gen := f_gen s;
                         f_peers := f_peers s; f_src := f_src s |}, id).

Definition clear (s : fstate) : fstate :=
  {| f_reg := []; f_goals := []; f_next := f_next s; f_gen := N.succ (f_gen s);
     f_peers := f_peers s; f_src := f_src s |}.

Inductive fop :=
| FCreate (sc : scope) (name : str) (d : ddef)
| FClear
| FPeers (src : option Z) (fire : bool)    (* membership source changes; the callback fires or not *)
| FCreateRace (sc : scope) (name : str) (d : ddef) (src : option Z).
    (* a creation during which the membership changes to src and the callback is delivered: the
       creation's updatePeerCounts reads the peer list under the factory lock, so the callback's
       updatePeerCounts waits for it and runs right after it *)

Definition fstep (s : fstate) (o : fop) : fstate * option N :=
  match o with
  | FCreate sc name d => let '(s', id) := create s sc name d in (s', Some id)
  | FClear => (clear s, None)
  | FPeers src fire =>
      let s1 := {| f_reg := f_reg s; f_goals := f_goals s; f_next := f_next s; f_gen := f_gen s;
                   f_peers := f_peers s; f_src := src |} in
      ((if fire then update_peer_counts s1 else s1), None)
  | FCreateRace sc name d src =>
      let '(s1, id) := create s sc name d in
      (update_peer_counts {| f_reg := f_reg s1; f_goals := f_goals s1; f_next := f_next s1; f_gen := f_gen s1;
                             f_peers := f_peers s1; f_src := src |}, Some id)
  end.

Fixpoint frun (s : fstate) (ops : list fop) : fstate :=
  match ops with [] => s | o :: r => frun (fst (fstep s o)) r end.

(* log of creations: (generation, key, id) *)
Fixpoint flog (s : fstate) (ops : list fop) : list (N * rkey * N) :=
  match ops with
  | [] => []
  | o :: r =>
      let '(s', out) := fstep s o in
      match o, out with
      | FCreate sc name d, Some id => (f_gen s, key_of sc name d, id) :: flog s' r
      | FCreateRace sc name d _, Some id => (f_gen s, key_of sc name d, id) :: flog s' r
      | _, _ => flog s' r
      end
  end.

(* goals of the live instances, by id *)
Definition live_goals (s : fstate) : list (N * Z) :=
  map (fun e => (i_id (snd e), i_goal (snd e))) (f_reg s).

(* ---------- environments, rules samplers, workers (C12) ---------- *)
Inductive edef :=
| EDet                                   (* deterministic sampler: no shared state *)
| EDyn (d : ddef)                        (* top-level dynsampler-backed sampler *)
| ERules (ds : list (option ddef)).      (* rules sampler: per rule with a downstream sampler, its
                                            dynsampler-backed definition (None: deterministic) *)
Definition econfig := list (str * edef).

Fixpoint efind (name : str) (c : econfig) : option edef :=
  match c with [] => None | (n, d) :: r => if str_eqb name n then Some d else efind name r end.
Definition elookup (c : econfig) (name : str) : edef :=
  match efind name c with
  | Some d => d
  | None => match efind (u "__default__") c with Some d => d | None => EDet end
  end.

(* GetSamplerImplementationForKey: ids behind the sampler, one slot per dynsampler position *)
Fixpoint create_down (s : fstate) (name : str) (ds : list (option ddef)) : fstate * list (option N) :=
  match ds with
  | [] => (s, [])
  | None :: r => let '(s', l) := create_down s name r in (s', None :: l)
  | Some d :: r => let '(s1, id) := create s Down name d in
                   let '(s2, l) := create_down s1 name r in (s2, Some id :: l)
  end.

Definition get_sampler (s : fstate) (c : econfig) (name : str) : fstate * list (option N) :=
  match elookup c name with
  | EDet => (s, [])
  | EDyn d => let '(s', id) := create s Top name d in (s', [Some id])
  | ERules ds => create_down s name ds
  end.

Record wstate := {
  w_f : fstate;
  w_cfg : econfig;
  w_cache : list ((N * str) * list (option N))   (* per worker: datasetSamplers *)
}.

Fixpoint cfind (w : N) (name : str) (m : list ((N * str) * list (option N))) : option (list (option N)) :=
  match m with
  | [] => None
  | ((w', n), v) :: r => if N.eqb w w' && str_eqb name n then Some v else cfind w name r
  end.

Inductive wop :=
| WGet (w : N) (name : str)              (* makeDecision on worker w for sampler key name *)
| WReload (c : econfig)                  (* config reload: new rules + ClearDynsamplers *)
| WWorkerReload (w : N).                 (* worker w handles its reload signal *)

Definition wstep (s : wstate) (o : wop) : wstate * list (option N) :=
  match o with
  | WGet w name =>
      match cfind w name (w_cache s) with
      | Some ids => (s, ids)
      | None => let '(f', ids) := get_sampler (w_f s) (w_cfg s) name in
                ({| w_f := f'; w_cfg := w_cfg s; w_cache := ((w, name), ids) :: w_cache s |}, ids)
      end
  | WReload c => ({| w_f := clear (w_f s); w_cfg := c; w_cache := w_cache s |}, [])
  | WWorkerReload w =>
      ({| w_f := w_f s; w_cfg := w_cfg s;
          w_cache := filter (fun e => negb (N.eqb (fst (fst e)) w)) (w_cache s) |}, [])
  end.

(* ---------- the collector's reload handler (collect.go reloadConfigs) ----------
   It clears the factory registry (with the new rules in force) and sends every worker a reload
   signal.  A worker can run its reload branch (WWorkerReload) only once it has been signalled.
   [early] is what the workers do between the handler's two steps, [late] what they do after both.
   clear_first = true : ClearDynsamplers, then the signals — no worker can have handled the signal
                        before the registry is cleared;
   clear_first = false: signals, then ClearDynsamplers — [early] may contain a worker's reload. *)
Definition reload_schedule (clear_first : bool) (c : econfig) (early late : list wop) : list wop :=
  if clear_first then WReload c :: early ++ late else early ++ WReload c :: late.

(* the order found in the source *)
Definition real_reload_schedule := reload_schedule GenC12.reload_clear_before_signal.

Fixpoint wrun (s : wstate) (ops : list wop) : list (list (option N)) :=
  match ops with [] => [] | o :: r => let '(s', out) := wstep s o in out :: wrun s' r end.
