(* Executable model of the event-timestamp path (C22).

   Go                                                     model
   --                                                     -----
   route.getEventTime(header / batch "time" string)       get_event_time
     time.Parse(time.RFC3339Nano, s)                      parse_rfc        (strict RFC 3339 grammar)
     parseEpochDigits(s)   (integer parsing, fix commit)  parse_epoch_digits
   route.batchedEvent.UnmarshalMsg "time"                 decode_mts       (msgp.ReadTimeBytes, ext -1)
   transmit.batchedEvent.MarshalMsg                       forwarded        (msgp.AppendTimeExt)
   the fake Honeycomb API reading the "time" field        api_reads        (standard timestamp ext only)

   An instant is (seconds since the Unix epoch, nanoseconds in [0, 10^9)).
   Strings are lists of ascii; the Monitor converts from [string].
   Inputs outside the formats named by the property (floats such as "1535589382.641", hex, signs,
   fewer than 10 or more than 19 digits) are not modelled: the model answers "zero time" for them
   and the generator does not produce them.  No proofs in this file. *)
From Refinery Require Import Lib.Base.
Local Open Scope Z_scope.

(* What the model is parametric in; the values are extracted from the Go source by the translator
   (coq/Gen/GenC22.v) and the theorems of Props/C22.v are stated for THAT record.  The Monitor runs
   the model with [std_cfg], so it keeps working (and finds a concrete failing input) when a source
   edit changes or removes one of the extracted facts. *)
Record ts_cfg := {
  min_digits : Z;            (* parseEpochDigits: shortest accepted digit string *)
  max_digits : Z;            (* ... longest *)
  sec_digits : Z;            (* ... leading digits that are seconds *)
  pad_digits : Z;            (* ... total digits the fraction is scaled to *)
  digits_first : bool;       (* getEventTime tries parseEpochDigits before the float-based parsing *)
  batch_prefers_msgp : bool; (* batchedEvent.getEventTime returns the msgpack time when present *)
  uses_time_ext : bool       (* transmit.batchedEvent.MarshalMsg encodes with msgp.AppendTimeExt *)
}.
Definition std_cfg : ts_cfg :=
  {| min_digits := 10; max_digits := 19; sec_digits := 10; pad_digits := 19;
     digits_first := true; batch_prefers_msgp := true; uses_time_ext := true |}.

Definition instant := (Z * Z)%type.

(* ---------- decimal digits ---------- *)
Definition digit_val (c : ascii) : option Z :=
  let n := Z.of_N (N_of_ascii c) in
  if (48 <=? n) && (n <=? 57) then Some (n - 48) else None.
Definition is_digit (c : ascii) : bool := match digit_val c with Some _ => true | None => false end.
Definition digit_char (d : Z) : ascii := ascii_of_N (Z.to_N (d + 48)).

(* fixed-width decimal, most significant digit first *)
Fixpoint digitsZ (w : nat) (n : Z) : list ascii :=
  match w with
  | O => []
  | S w' => digit_char (n / 10 ^ Z.of_nat w') :: digitsZ w' (n mod 10 ^ Z.of_nat w')
  end.

(* read exactly [w] digits, accumulating *)
Fixpoint read_num (w : nat) (acc : Z) (l : list ascii) : option (Z * list ascii) :=
  match w with
  | O => Some (acc, l)
  | S w' => match l with
            | [] => None
            | c :: r => match digit_val c with
                        | Some d => read_num w' (acc * 10 + d) r
                        | None => None
                        end
            end
  end.

(* longest prefix of digits *)
Fixpoint span_digits (l : list ascii) : list ascii * list ascii :=
  match l with
  | [] => ([], [])
  | c :: r => if is_digit c then let '(a, b) := span_digits r in (c :: a, b) else ([], l)
  end.

Definition expect (c : ascii) (l : list ascii) : option (list ascii) :=
  match l with
  | x :: r => if Ascii.eqb x c then Some r else None
  | [] => None
  end.

(* ---------- all-digit epoch: route.parseEpochDigits ---------- *)
Definition parse_epoch_digits (c : ts_cfg) (l : list ascii) : option instant :=
  let n := Z.of_nat (length l) in
  if (n <? min_digits c) || (max_digits c <? n) then None else
  match read_num (Z.to_nat (sec_digits c)) 0 l with
  | Some (sec, rest) =>
      match read_num (length rest) 0 rest with
      | Some (frac, _) => Some (sec, frac * 10 ^ (pad_digits c - n))
      | None => None
      end
  | None => None
  end.

(* ---------- civil calendar (proleptic Gregorian), days relative to 1970-01-01 ---------- *)
Definition days_from_civil (y m d : Z) : Z :=
  let y' := if m <=? 2 then y - 1 else y in
  let era := y' / 400 in
  let yoe := y' - era * 400 in
  let mp := if m <=? 2 then m + 9 else m - 3 in
  let doy := (153 * mp + 2) / 5 + d - 1 in
  let doe := yoe * 365 + yoe / 4 - yoe / 100 + doy in
  era * 146097 + doe - 719468.

Definition civil_from_days (z : Z) : Z * Z * Z :=
  let z' := z + 719468 in
  let era := z' / 146097 in
  let doe := z' - era * 146097 in
  let yoe := (doe - doe / 1460 + doe / 36524 - doe / 146096) / 365 in
  let y := yoe + era * 400 in
  let doy := doe - (365 * yoe + yoe / 4 - yoe / 100) in
  let mp := (5 * doy + 2) / 153 in
  let d := doy - (153 * mp + 2) / 5 + 1 in
  let m := if mp <? 10 then mp + 3 else mp - 9 in
  (if m <=? 2 then y + 1 else y, m, d).

Definition is_leap (y : Z) : bool := ((y mod 4 =? 0) && negb (y mod 100 =? 0)) || (y mod 400 =? 0).
Definition days_in_month (y m : Z) : Z :=
  if m =? 2 then (if is_leap y then 29 else 28)
  else if (m =? 4) || (m =? 6) || (m =? 9) || (m =? 11) then 30 else 31.

(* ---------- RFC 3339: time.Parse(time.RFC3339Nano, s) on well-formed input ---------- *)
(* fraction: the digits after '.', first nine significant, right-padded *)
Definition frac_nsec (ds : list ascii) : option Z :=
  let k := Nat.min 9 (length ds) in
  match read_num k 0 ds with
  | Some (v, _) => Some (v * 10 ^ (9 - Z.of_nat k))
  | None => None
  end.

Definition parse_zone (l : list ascii) : option Z :=       (* offset east of UTC, seconds *)
  match l with
  | [] => None
  | c :: r =>
      if Ascii.eqb c "Z" then (match r with [] => Some 0 | _ => None end) else
      let sign := if Ascii.eqb c "+" then Some 1 else if Ascii.eqb c "-" then Some (-1) else None in
      match sign, read_num 2 0 r with
      | Some sg, Some (hh, r1) =>
          match expect ":" r1 with
          | Some r2 => match read_num 2 0 r2 with
                       | Some (mm, []) =>
                           if (hh <? 24) && (mm <? 60) then Some (sg * (hh * 3600 + mm * 60)) else None
                       | _ => None
                       end
          | None => None
          end
      | _, _ => None
      end
  end.

Definition parse_rfc (l : list ascii) : option instant :=
  match read_num 4 0 l with None => None | Some (y, l) =>
  match expect "-" l with None => None | Some l =>
  match read_num 2 0 l with None => None | Some (mo, l) =>
  match expect "-" l with None => None | Some l =>
  match read_num 2 0 l with None => None | Some (d, l) =>
  match expect "T" l with None => None | Some l =>
  match read_num 2 0 l with None => None | Some (h, l) =>
  match expect ":" l with None => None | Some l =>
  match read_num 2 0 l with None => None | Some (mi, l) =>
  match expect ":" l with None => None | Some l =>
  match read_num 2 0 l with None => None | Some (s, l) =>
  let '(fr, l) := match l with
                  | c :: r => if Ascii.eqb c "."
                              then let '(ds, rest) := span_digits r in
                                   (match ds with [] => None | _ => frac_nsec ds end, rest)
                              else (Some 0, l)
                  | [] => (Some 0, l)
                  end in
  match fr, parse_zone l with
  | Some ns, Some off =>
      if (1 <=? mo) && (mo <=? 12) && (1 <=? d) && (d <=? days_in_month y mo)
         && (h <? 24) && (mi <? 60) && (s <? 60)
      then Some (days_from_civil y mo d * 86400 + h * 3600 + mi * 60 + s - off, ns)
      else None
  | _, _ => None
  end end end end end end end end end end end end.

(* ---------- route.getEventTime ---------- *)
(* None = the zero time.Time (nothing usable was supplied). *)
Definition get_event_time (c : ts_cfg) (l : list ascii) : option instant :=
  match l with
  | [] => None
  | _ => match parse_rfc l with
         | Some t => Some t
         | None => if digits_first c then parse_epoch_digits c l else None
         end
  end.

(* ---------- msgpack timestamp extension (type -1) ---------- *)
(* wire fields: Ts32 (uint32 seconds) | Ts64 (uint64 = nsec<<34 | seconds) | Ts96 (uint32 nsec, uint64 bits of int64 seconds) *)
Inductive mts := Ts32 (s : Z) | Ts64 (v : Z) | Ts96 (ns : Z) (s : Z).

Definition mts_wf (x : mts) : bool :=
  match x with
  | Ts32 s => (0 <=? s) && (s <? 2 ^ 32)
  | Ts64 v => (0 <=? v) && (v <? 2 ^ 64)
  | Ts96 ns s => (0 <=? ns) && (ns <? 2 ^ 32) && (0 <=? s) && (s <? 2 ^ 64)
  end.

(* msgp.ReadTimeBytes, MsgTimeExtension arm.  None = InvalidTimestamp error (the request is rejected). *)
Definition decode_mts (x : mts) : option instant :=
  match x with
  | Ts32 s => Some (s, 0)
  | Ts64 v => let ns := Z.shiftr v 34 in
              if 999999999 <? ns then None else Some (Z.land v (2 ^ 34 - 1), ns)
  | Ts96 ns s => if 999999999 <? ns then None
                 else Some (if s <? 2 ^ 63 then s else s - 2 ^ 64, ns)
  end.

(* msgp.AppendTimeExt *)
Definition encode_mts (t : instant) : mts :=
  let '(sec, ns) := t in
  if (ns =? 0) && (0 <? sec) && (sec <=? 2 ^ 32 - 1) then Ts32 sec
  else if (sec <? 0) || (2 ^ 34 <=? sec) then Ts96 ns (sec mod 2 ^ 64)
  else Ts64 (Z.lor sec (Z.shiftl ns 34)).

(* ---------- the pipeline ---------- *)
Inductive tinput :=
| InText (l : list ascii)      (* X-Honeycomb-Event-Time header, or the "time" string of a JSON batch event *)
| InMsgp (x : mts).            (* "time" of a msgpack batch event *)

(* the zero time.Time as an instant: 0001-01-01T00:00:00Z *)
Definition zero_instant : instant := (-62135596800, 0).

(* outcome of ingestion: the Timestamp of the types.Event, or rejection of the request *)
Definition event_time (c : ts_cfg) (i : tinput) : option instant :=
  match i with
  | InText l => Some (match get_event_time c l with Some t => t | None => zero_instant end)
  | InMsgp x => decode_mts x
  end.

(* what transmit.batchedEvent.MarshalMsg writes for "time" *)
Inductive wire_time :=
| WExt (m : mts)               (* standard timestamp extension (AppendTimeExt) *)
| WTiny (t : instant).         (* tinylib's private extension 5 (AppendTime) *)

Definition forwarded (c : ts_cfg) (i : tinput) : option wire_time :=
  match event_time c i with
  | Some t => Some (if uses_time_ext c then WExt (encode_mts t) else WTiny t)
  | None => None
  end.

(* a standard msgpack reader on the receiving side *)
Definition api_reads (w : option wire_time) : option instant :=
  match w with
  | Some (WExt m) => decode_mts m
  | _ => None
  end.

Definition received (c : ts_cfg) (i : tinput) : option instant := api_reads (forwarded c i).

(* ---------- how a client writes an instant (the specification side) ---------- *)
(* integer epoch with [k] fractional digits: 10 digits of seconds, then k digits *)
Definition render_epoch (k : nat) (t : instant) : list ascii :=
  digitsZ 10 (fst t) ++ digitsZ k (snd t / 10 ^ (9 - Z.of_nat k)).

Definition render_zone (off : Z) (zulu : bool) : list ascii :=    (* off in minutes *)
  if zulu && (off =? 0) then ["Z"%char]
  else (if off <? 0 then "-"%char else "+"%char)
         :: digitsZ 2 (Z.abs off / 60) ++ [":"%char] ++ digitsZ 2 (Z.abs off mod 60).

Definition render_rfc (k : nat) (off : Z) (zulu : bool) (t : instant) : list ascii :=
  let loc := fst t + off * 60 in
  let days := loc / 86400 in
  let sod := loc mod 86400 in
  let '(y, m, d) := civil_from_days days in
  digitsZ 4 y ++ ["-"%char] ++ digitsZ 2 m ++ ["-"%char] ++ digitsZ 2 d ++ ["T"%char]
  ++ digitsZ 2 (sod / 3600) ++ [":"%char] ++ digitsZ 2 (sod mod 3600 / 60) ++ [":"%char] ++ digitsZ 2 (sod mod 60)
  ++ (match k with O => [] | _ => "."%char :: digitsZ k (snd t / 10 ^ (9 - Z.of_nat k)) end)
  ++ render_zone off zulu.

(* the three msgpack timestamp formats a client may choose *)
Definition client_mts (fmt : N) (t : instant) : mts :=
  match fmt with
  | 32%N => Ts32 (fst t)
  | 64%N => Ts64 (fst t + snd t * 2 ^ 34)
  | _ => Ts96 (snd t) (fst t mod 2 ^ 64)
  end.

(* the instants the property quantifies over: 2001-01-01T00:00:00Z .. 2286-11-20T17:46:39.999999999Z
   (the upper end is the last instant whose epoch seconds have ten digits) *)
Definition range_lo : Z := 978307200.
Definition range_hi : Z := 10 ^ 10.
Definition in_range (t : instant) : Prop :=
  range_lo <= fst t < range_hi /\ 0 <= snd t < 10 ^ 9.
(* an instant is expressible with k fractional digits *)
Definition has_precision (k : nat) (t : instant) : Prop := snd t mod 10 ^ (9 - Z.of_nat k) = 0.

(* ---------- batches and overlapping requests ----------
   The handlers keep no state between events or requests that a timestamp may depend on (each
   event's time string is COPIED out of the pooled JSON parser's buffer, each msgpack time is
   decoded to a value): a batch, and any set of requests however their handling interleaves, is
   forwarded pointwise.  The correspondence checks exactly this on overlapping requests. *)
Inductive creq :=
| CEpoch (k : nat) (t : instant)
| CRfc (k : nat) (off : Z) (zulu : bool) (t : instant)
| CMsgp (fmt : N) (t : instant).

Definition creq_instant (r : creq) : instant :=
  match r with CEpoch _ t | CRfc _ _ _ t | CMsgp _ t => t end.
Definition creq_input (r : creq) : tinput :=
  match r with
  | CEpoch k t => InText (render_epoch k t)
  | CRfc k off zulu t => InText (render_rfc k off zulu t)
  | CMsgp f t => InMsgp (client_mts f t)
  end.
Definition creq_ok (r : creq) : Prop :=
  in_range (creq_instant r) /\
  match r with
  | CEpoch k t => (k <= 9)%nat /\ has_precision k t
  | CRfc k off _ t => (k <= 9)%nat /\ -1440 < off < 1440 /\ has_precision k t
  | CMsgp f t => (f = 32%N -> snd t = 0 /\ fst t < 2 ^ 32) /\ (f = 64%N -> fst t < 2 ^ 34)
  end.
Definition forward_batch (c : ts_cfg) (l : list tinput) : list (option instant) := map (received c) l.
