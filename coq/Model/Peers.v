(* Executable model of internal/peer/pubsub_redis.go: the peer command codec and one node's view of
   the membership (a generics.MapWithTTL keyed by instance id, see Model/TTL.v).

   Go                                             model
   --                                             -----
   peerCommand.marshal()                          marshal a addr id = a :: addr ++ "," :: id
   peerCommand.unmarshal(msg)    (after the fix) unmarshal msg: split at the LAST comma; action must be R or U
                                  (before the fix) unmarshal_first: split at the FIRST comma (kept to state the finding)
   Start(): peers.Set(InstanceID, myaddr)         a DReg item for the node itself at its start instant
   listen(msg): R -> peers.Set(id, address)       DReg / DUnreg items in the order the node processes them
                U -> peers.Delete(id)
   GetPeers(): peers.SortedValues(), or [myaddr]  get_peers (values by id; the harness compares as a set of (id,address))
               if that is empty

   Messages are lists of bytes (ascii). Ids and addresses in the membership model are N (the
   harness numbers the strings it uses; an address corrupted on the wire gets a number of its own). *)
From Refinery Require Import Lib.Base Model.TTL.

(* ---------------- codec ---------------- *)
Definition comma : ascii := ","%char.
Definition is_comma (c : ascii) : bool := Ascii.eqb c comma.
Definition act_ok (a : ascii) : bool := Ascii.eqb a "R"%char || Ascii.eqb a "U"%char.

Definition marshal (a : ascii) (addr id : list ascii) : list ascii := a :: addr ++ comma :: id.

(* split at the last comma *)
Fixpoint split_last (l : list ascii) : option (list ascii * list ascii) :=
  match l with
  | [] => None
  | x :: r => match split_last r with
              | Some (a, b) => Some (x :: a, b)
              | None => if is_comma x then Some ([], r) else None
              end
  end.
(* split at the first comma *)
Fixpoint split_first (l : list ascii) : option (list ascii * list ascii) :=
  match l with
  | [] => None
  | x :: r => if is_comma x then Some ([], r)
              else match split_first r with Some (a, b) => Some (x :: a, b) | None => None end
  end.

(* len(msg) < 2 || idx == -1 -> false; action := msg[:1]; only R and U decode. The first byte of a
   decodable message is R or U (not a comma), so the comma index in msg is 1 + the index in msg[1:]. *)
Definition unmarshal (msg : list ascii) : option (ascii * list ascii * list ascii) :=
  match msg with
  | [] => None
  | a :: rest => if act_ok a then
                   match split_last rest with Some (addr, id) => Some (a, addr, id) | None => None end
                 else None
  end.
Definition unmarshal_first (msg : list ascii) : option (ascii * list ascii * list ascii) :=
  match msg with
  | [] => None
  | a :: rest => if act_ok a then
                   match split_first rest with Some (addr, id) => Some (a, addr, id) | None => None end
                 else None
  end.

(* ---------------- one node's membership view ---------------- *)
(* an item the node processes: a decoded command, when it was published and when it is processed *)
Record item := { i_t : Z; i_p : Z; i_reg : bool; i_id : N; i_addr : N }.

Definition item_op (it : item) : top := if i_reg it then Put (i_id it) (i_addr it) else Del (i_id it).

(* the TTL-map history of processing the items at their instants and then listing at tau *)
Fixpoint item_ops (nw : Z) (items : list item) (tau : Z) : list top :=
  match items with
  | [] => [Advance (tau - nw); Vals]
  | it :: r => Advance (i_t it - nw) :: item_op it :: item_ops (i_t it) r tau
  end.

(* GetPeers, as (id, address) pairs; None = the list was empty and the node answers with itself *)
Definition get_peers (ttl t0 : Z) (items : list item) (tau : Z) : option (list (N * N)) :=
  match List.last (trun ttl (tinit t0) (item_ops t0 items tau)) ONone with
  | OVals [] => None
  | OVals l => Some l
  | _ => None
  end.

(* the same, from the liveness specification of the TTL map *)
Fixpoint last_map (m : amap (Z * N)) (items : list item) : amap (Z * N) :=
  match items with
  | [] => m
  | it :: r => last_map (if i_reg it then aset (i_id it) (i_t it, i_addr it) m else aremove (i_id it) m) r
  end.
Definition spec_listing (ttl : Z) (items : list item) (tau : Z) : list (N * N) :=
  map (fun kv => (fst kv, snd (snd kv))) (live_entries ttl {| snow := tau; last := last_map [] items |}).

(* items are processed in time order, never before they were published, and the query comes last *)
Fixpoint items_ok (nw : Z) (items : list item) (tau : Z) : bool :=
  match items with
  | [] => nw <=? tau
  | it :: r => (nw <=? i_t it) && (i_p it <=? i_t it) && items_ok (i_t it) r tau
  end.
