(* Executable model of ingest authorization and API-key replacement:
   config/file_config.go  AccessKeyConfig.IsAccepted / HasKeyIDs / GetReplaceKey, and the way each of the
   six ingest entry points composes them (route/middleware.go apiKeyProcessor; route/otlp_trace.go
   postOTLPTrace, customTraceExportHandler + ExportTraceData; route/otlp_logs.go postOTLPLogs, Export).

   The composition is not written by hand: tools/translate extracts from each entry point the ORDER of its
   accept / replace / assign / validate / translate steps (Gen/GenC24.v, kind auth_script) and [run] interprets
   that script, so that moving a check in the source moves it in the model.

   Oracles: [kid_of] = the key ID Honeycomb's /1/auth returns for a key ("" for blank and classic keys; the
   harness passes what the fake API answered); husky's header validation = "the key is missing iff it is
   blank".  No proofs in this file. *)
From Refinery Require Import Lib.Base Gen.GenC24.

Record akcfg := {
  ak_receive : list string;      (* ReceiveKeys *)
  ak_receive_ids : list string;  (* ReceiveKeyIDs *)
  ak_send : string;              (* SendKey *)
  ak_mode : string;              (* SendKeyMode *)
  ak_only_listed : bool          (* AcceptOnlyListedKeys *)
}.

Definition smem (s : string) (l : list string) : bool := existsb (String.eqb s) l.
Definition nonempty (s : string) : bool := negb (String.eqb s "").

(* slices.Contains(a.ReceiveKeys, key) || (keyID != "" && slices.Contains(a.ReceiveKeyIDs, keyID)) *)
Definition listed (c : akcfg) (key kid : string) : bool :=
  smem key (ak_receive c) || (nonempty kid && smem kid (ak_receive_ids c)).

(* AccessKeyConfig.IsAccepted *)
Definition is_accepted (c : akcfg) (key kid : string) : bool :=
  if ak_only_listed c
  then (nonempty (ak_send c) && String.eqb key (ak_send c)) || smem key (ak_receive c) ||
       (nonempty kid && smem kid (ak_receive_ids c))
  else true.

(* AccessKeyConfig.HasKeyIDs, and the `keyID := ""; if HasKeyIDs() { keyID = getKeyID(key) }` idiom *)
Definition has_key_ids (c : akcfg) : bool := match ak_receive_ids c with [] => false | _ => true end.
Definition key_id (c : akcfg) (kid_of : string -> string) (key : string) : string :=
  if has_key_ids c then kid_of key else "".

(* the switch of AccessKeyConfig.GetReplaceKey: the value of overwriteWith *)
Definition overwrite_with (c : akcfg) (key kid : string) : string :=
  let m := ak_mode c in
  if String.eqb m "none" then ""
  else if String.eqb m "all" then ak_send c
  else if String.eqb m "nonblank" then (if nonempty key then ak_send c else "")
  else if String.eqb m "listedonly" then (if listed c key kid then ak_send c else key)
  else if String.eqb m "missingonly" then (if nonempty key then key else ak_send c)
  else if String.eqb m "unlisted" then
    (if nonempty key then (if listed c key kid then key else ak_send c) else "")
  else "".

(* AccessKeyConfig.GetReplaceKey : None = the "blank API key is not permitted" error *)
Definition get_replace_key (c : akcfg) (key kid : string) : option string :=
  let k := if nonempty (ak_send c)
           then (let o := overwrite_with c key kid in if nonempty o then o else key)
           else key in
  if nonempty k then Some k else None.

(* ---- the entry points -------------------------------------------------------------------------- *)
Inductive aop := OpAccept | OpReplace (strict : bool) | OpAssign | OpValidate | OpTranslate | OpUnknown.

Definition aop_of (s : string) : aop :=
  if String.eqb s "accept" then OpAccept
  else if String.eqb s "replace_strict" then OpReplace true
  else if String.eqb s "replace_lenient" then OpReplace false
  else if String.eqb s "assign" then OpAssign
  else if String.eqb s "validate" then OpValidate
  else if String.eqb s "translate" then OpTranslate
  else OpUnknown.

(* how an entry point treats husky's "missing API key header", and which variable its events carry *)
Inductive proto :=
| PV1          (* apiKeyProcessor + event / batch: the handler reads the (rewritten) header *)
| POtlpHttp    (* postOTLPTrace / postOTLPLogs: a missing key is fatal only if keyToUse is empty; events carry keyToUse *)
| PGrpcTrace   (* customTraceExportHandler ; ExportTraceData: events carry ri.ApiKey *)
| PGrpcLogs.   (* LogsServer.Export: a missing key header is ignored here; events carry keyToUse *)

Inductive entry := EV1Event | EV1Batch | EOtlpTraceHttp | EOtlpLogsHttp | EGrpcTrace | EGrpcLogs.

Definition proto_of (e : entry) : proto :=
  match e with
  | EV1Event | EV1Batch => PV1
  | EOtlpTraceHttp | EOtlpLogsHttp => POtlpHttp
  | EGrpcTrace => PGrpcTrace
  | EGrpcLogs => PGrpcLogs
  end.

Definition script_text (e : entry) : list string :=
  match e with
  | EV1Event | EV1Batch => c24_script_v1
  | EOtlpTraceHttp => c24_script_otlp_trace_http
  | EOtlpLogsHttp => c24_script_otlp_logs_http
  | EGrpcTrace => c24_script_grpc_trace_handler ++ c24_script_grpc_trace_export
  | EGrpcLogs => c24_script_grpc_logs
  end.
Definition script (e : entry) : list aop := map aop_of (script_text e).

Inductive result := Rejected | Sent (k : string).

(* cur = ri.ApiKey / the X-Honeycomb-Team header; touse = keyToUse / replacement *)
Fixpoint run (pr : proto) (c : akcfg) (kid_of : string -> string) (ops : list aop) (cur touse : string) : result :=
  match ops with
  | [] => Sent (match pr with PV1 | PGrpcTrace => cur | POtlpHttp | PGrpcLogs => touse end)
  | op :: r =>
      match op with
      | OpAccept =>
          if is_accepted c cur (key_id c kid_of cur) then run pr c kid_of r cur touse else Rejected
      | OpReplace strict =>
          match get_replace_key c cur (key_id c kid_of cur) with
          | Some k => run pr c kid_of r cur k
          | None => if strict then Rejected else run pr c kid_of r cur ""
          end
      | OpAssign => run pr c kid_of r touse touse
      | OpValidate =>
          if nonempty cur then run pr c kid_of r cur touse
          else match pr with
               | POtlpHttp => if nonempty touse then run pr c kid_of r cur touse else Rejected
               | _ => run pr c kid_of r cur touse
               end
      | OpTranslate => if nonempty cur then run pr c kid_of r cur touse else Rejected
      | OpUnknown => Rejected
      end
  end.

Definition enter (e : entry) (c : akcfg) (kid_of : string -> string) (key : string) : result :=
  run (proto_of e) c kid_of (script e) key key.

(* the scripts of the pinned tree (before the fix), for the _refuted theorem *)
Definition pinned_grpc_trace : list aop := [OpReplace true; OpAssign; OpTranslate; OpAccept].

(* ---- the specification ------------------------------------------------------------------------------ *)
(* the documented SendKeyMode table (config.md / configMeta.yaml), for the client's key *)
Definition doc_out (c : akcfg) (key kid : string) : string :=
  if negb (nonempty (ak_send c)) then key
  else
    let m := ak_mode c in
    if String.eqb m "none" then key
    else if String.eqb m "all" then ak_send c
    else if String.eqb m "nonblank" then (if nonempty key then ak_send c else key)
    else if String.eqb m "listedonly" then (if listed c key kid then ak_send c else key)
    else if String.eqb m "missingonly" then (if nonempty key then key else ak_send c)
    else if String.eqb m "unlisted" then (if nonempty key && negb (listed c key kid) then ak_send c else key)
    else key.

(* accepted exactly when AcceptOnlyListedKeys is off, or the client's key equals SendKey, or it (or its key ID) is listed *)
Definition accept_spec (c : akcfg) (key kid : string) : bool :=
  negb (ak_only_listed c) || (nonempty (ak_send c) && String.eqb key (ak_send c)) || listed c key kid.

(* ... and nothing leaves with a blank key: a request whose outgoing key would be blank is refused *)
Definition spec (c : akcfg) (kid_of : string -> string) (key : string) : result :=
  let kid := key_id c kid_of key in
  if accept_spec c key kid && nonempty (doc_out c key kid) then Sent (doc_out c key kid) else Rejected.

(* the expected shape of the generated tables *)
Definition expected_arms : list string := ["none"; "all"; "nonblank"; "listedonly"; "missingonly"; "unlisted"]%string.
Definition expected_bodies : list string :=
  [""; "overwriteWith = a.SendKey";
   "if apiKey != """" { overwriteWith = a.SendKey }";
   "overwriteWith = apiKey; if slices.Contains(a.ReceiveKeys, apiKey) || (keyID != """" && slices.Contains(a.ReceiveKeyIDs, keyID)) { overwriteWith = a.SendKey }";
   "overwriteWith = apiKey; if apiKey == """" { overwriteWith = a.SendKey }";
   "if apiKey != """" { overwriteWith = apiKey if !slices.Contains(a.ReceiveKeys, apiKey) && !(keyID != """" && slices.Contains(a.ReceiveKeyIDs, keyID)) { overwriteWith = a.SendKey } }"]%string.
(* the decision structure of IsAccepted as a SET of (guards => outcome), independent of nesting / early returns *)
Definition accept_cond_text : string :=
  "(len(a.SendKey) > 0 && key == a.SendKey) || slices.Contains(a.ReceiveKeys, key) || (keyID != """" && slices.Contains(a.ReceiveKeyIDs, keyID))"%string.
Definition expected_accept_decisions : list string :=
  [("!(" ++ accept_cond_text ++ ") & a.AcceptOnlyListedKeys => err")%string;
   "!a.AcceptOnlyListedKeys => nil"%string;
   (accept_cond_text ++ " & a.AcceptOnlyListedKeys => nil")%string].

(* the source text of IsAccepted / GetReplaceKey is the one this model was written from *)
Definition tables_ok : bool :=
  list_eqb String.eqb (map fst c24_replace_arms) expected_arms &&
  list_eqb String.eqb (map snd c24_replace_arms) expected_bodies &&
  list_eqb String.eqb c24_accept_decisions expected_accept_decisions && c24_replace_frame_ok.

(* the order of steps the theorems are proved for *)
Definition scripts_ok : bool :=
  list_eqb String.eqb c24_script_v1 ["accept"; "replace_strict"; "assign"]%string &&
  list_eqb String.eqb c24_script_otlp_trace_http ["accept"; "replace_lenient"; "validate"; "assign"; "translate"]%string &&
  list_eqb String.eqb c24_script_otlp_logs_http ["accept"; "replace_lenient"; "validate"; "assign"; "translate"]%string &&
  list_eqb String.eqb (c24_script_grpc_trace_handler ++ c24_script_grpc_trace_export)
           ["accept"; "replace_strict"; "assign"; "translate"; "accept"]%string &&
  list_eqb String.eqb c24_script_grpc_logs ["accept"; "replace_lenient"; "validate"; "assign"; "translate"]%string.
