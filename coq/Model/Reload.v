(* Executable model of config reloading: config/file_config.go Reload / reloadAndStore / newFileConfig,
   triggered by internal/configwatcher (timer tick, pubsub message) or OpAMP, possibly concurrently.

   A "content" is what the config and rules sources hold at some instant:
     chash  identity of the bytes of both sources (the pair of md5 hashes the Go code compares)
     cacc   startup (NewConfig with the running version) accepts it: returns a non-nil config
     cwarn  startup reports warnings for it (deprecated keys)
     cval   identity of the effective settings startup derives from it
   cacc / cwarn / cval are functions of the bytes; in the correspondence they are measured by running
   the real NewConfig on the same files.

   One Reload is modelled as the atomic steps of the Go code
     Idle -> (trigger) Ready -> (reloadMux.Lock) Locked -> (newConfigAndRules) Loaded -> (newFileConfig + hash comparison)
          -> Writing -> (store under mux) Unlocking -> (reloadMux.Unlock) Notifying cbs -> ... -> Idle
   and any number of reloaders and a file writer are interleaved step-wise by a schedule.
   The two flags describe the code before the fixes (lock = false: no reload mutex; warn_ok = false:
   Reload returns on any non-nil error, so warning-only contents are not applied).            *)
From Refinery Require Import Lib.Base Gen.GenC27.

Record content := { chash : N; cacc : bool; cwarn : bool; cval : N }.
Inductive source := Unreadable | Readable (c : content).

Record variant := { v_lock : bool; v_warn_ok : bool }.
Definition fixed : variant := {| v_lock := true; v_warn_ok := true |}.

(* the variant the Go source currently has (flags re-read from config/file_config.go on every run) *)
Definition gen_variant : variant :=
  {| v_lock := reload_is_serialized;
     v_warn_ok := reload_fatal_only_when_no_config && reload_validates_with_startup_version &&
                  reload_unchanged_is_hash_equality && startup_fatal_only_when_no_config |}.

(* would this Reload store the content it read? (newFileConfig verdict, then the hash comparison) *)
Definition acceptable (v : variant) (c : content) : bool := cacc c && (v_warn_ok v || negb (cwarn c)).
Definition applies (v : variant) (cur : content) (s : source) : bool :=
  match s with
  | Unreadable => false
  | Readable c => acceptable v c && negb (N.eqb (chash c) (chash cur))
  end.

(* ---------------- sequential semantics (one reload at a time) ---------------- *)
Definition reload_seq (v : variant) (cur : content) (s : source) : content * bool :=
  match s with
  | Readable c => if applies v cur s then (c, true) else (cur, false)
  | Unreadable => (cur, false)
  end.

(* ---------------- interleaving semantics ---------------- *)
Inductive pc :=
| Idle | Ready | Locked | Loaded (s : source) | Writing (s : source) (c : content)
| Unlocking (s : source) (note : option content) | Notifying (c : content) (rest : list N).

Record sys := {
  file : source;               (* what the sources hold now *)
  cur : content;               (* the running configuration *)
  lock : option nat;           (* holder of reloadMux *)
  threads : list pc;
  applied : list content;      (* every stored content, newest first *)
  notes : list (N * N)         (* (listener, hash of the change) for every callback invocation, newest first *)
}.

(* SetFile: the sources change; Trigger t: a timer tick / pubsub message / OpAMP message makes reloader t
   call Reload (ignored while t is still busy: use another t); Step t: reloader t performs its next step *)
Inductive sop := SetFile (s : source) | Trigger (t : nat) | Step (t : nat).

Fixpoint upd {A} (t : nat) (x : A) (l : list A) : list A :=
  match l, t with
  | [], _ => []
  | _ :: r, O => x :: r
  | y :: r, S t' => y :: upd t' x r
  end.

Definition set_pc (s : sys) (t : nat) (p : pc) : sys :=
  {| file := file s; cur := cur s; lock := lock s; threads := upd t p (threads s); applied := applied s; notes := notes s |}.

Definition step (v : variant) (cbs : list N) (s : sys) (t : nat) : sys :=
  if Nat.ltb t (length (threads s)) then
    match nth t (threads s) Idle with
    | Idle => s
    | Ready =>
        if v_lock v then
          match lock s with
          | None => {| file := file s; cur := cur s; lock := Some t; threads := upd t Locked (threads s);
                       applied := applied s; notes := notes s |}
          | Some _ => s                                        (* blocked on reloadMux *)
          end
        else set_pc s t Locked
    | Locked => set_pc s t (Loaded (file s))
    | Loaded src =>
        match src with
        | Readable c => if applies v (cur s) src then set_pc s t (Writing src c) else set_pc s t (Unlocking src None)
        | Unreadable => set_pc s t (Unlocking src None)
        end
    | Writing src c =>
        {| file := file s; cur := c; lock := lock s; threads := upd t (Unlocking src (Some c)) (threads s);
           applied := c :: applied s; notes := notes s |}
    | Unlocking src n =>
        {| file := file s; cur := cur s; lock := if v_lock v then None else lock s;
           threads := upd t (match n with Some c => Notifying c cbs | None => Idle end) (threads s);
           applied := applied s; notes := notes s |}
    | Notifying c (cb :: r) =>
        {| file := file s; cur := cur s; lock := lock s; threads := upd t (Notifying c r) (threads s);
           applied := applied s; notes := (cb, chash c) :: notes s |}
    | Notifying c [] => set_pc s t Idle
    end
  else s.

Definition sstep (v : variant) (cbs : list N) (s : sys) (o : sop) : sys :=
  match o with
  | SetFile src => {| file := src; cur := cur s; lock := lock s; threads := threads s; applied := applied s; notes := notes s |}
  | Trigger t => match nth t (threads s) Locked with Idle => set_pc s t Ready | _ => s end
  | Step t => step v cbs s t
  end.
Definition srun (v : variant) (cbs : list N) (s : sys) (ops : list sop) : sys := fold_left (sstep v cbs) ops s.

Definition sinit (n : nat) (c0 : content) : sys :=
  {| file := Readable c0; cur := c0; lock := None; threads := repeat Idle n; applied := []; notes := [] |}.

Definition quiescent (s : sys) : bool := forallb (fun p => match p with Idle => true | _ => false end) (threads s).

(* ---------------- sequential histories, as driven by the correspondence ---------------- *)
(* one trigger = one complete Reload on the sources as they are then; returns the running content after
   it and how many times each listener was called *)
Fixpoint seq_run (v : variant) (cur : content) (hist : list source) : list (content * bool) :=
  match hist with
  | [] => []
  | s :: r => let '(c', a) := reload_seq v cur s in (c', a) :: seq_run v c' r
  end.
