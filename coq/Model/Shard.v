(* Executable model of sharder/deterministic.go (DeterministicSharder) and of the local-vs-forward
   decision of route/route.go processEvent.

   Go                                                   model
   --                                                   -----
   wyhash.Hash([]byte(s), seed)                         H s seed            (oracle, Section variable)
   sort.Sort(SortableShardList(newPeers))               sort_addrs          (byte-lexicographic order)
   detShard.GetHashesFor(ix, n, peerSeed)               hashes_for a ix n   (seed chain: seeds)
   partitionCount/len(peerList) + 1                     ppp
   hashes (before sort.Slice)                           partitions lp
   sort.Slice(hashes, by uhash)   (unstable)            ANY hs with hash_order lp hs; sort_parts is one
   WhichShard: strict-greater scan from (0,0)           scan / owner
   processEvent: !target.Equals(MyShard()) => forward   route
   a span travelling through the cluster                deliver

   No proofs in this file. *)
From Refinery Require Import Lib.Base.
From Coq Require Import Sorting.Sorted Sorting.Permutation.

Definition addr := string.

(* sort.Sort(SortableShardList): Less is s[i] < s[j] on Go strings = bytewise lexicographic. *)
Fixpoint ins_addr (a : addr) (l : list addr) : list addr :=
  match l with
  | [] => [a]
  | x :: r => if String.leb a x then a :: l else x :: ins_addr a r
  end.
Definition sort_addrs (l : list addr) : list addr := fold_right ins_addr [] l.

(* hashShard *)
Record part := { uhash : N; pix : nat }.

(* stable insertion sort by uhash: ONE admissible result of sort.Slice *)
Fixpoint ins_part (p : part) (l : list part) : list part :=
  match l with
  | [] => [p]
  | x :: r => if N.leb (uhash p) (uhash x) then p :: l else x :: ins_part p r
  end.
Definition sort_parts (l : list part) : list part := fold_right ins_part [] l.

Inductive hop := Local | Forward (a : addr).

Section Shard.
  Variable H : string -> N -> N.          (* wyhash.Hash *)
  Variable salt : string.                 (* "anything" *)
  Variables seed0 pcount : N.             (* peerSeed, partitionCount *)
  Variables strict sortp : bool.          (* `h > maxHash` ; loadPeerList sorts newPeers *)

  Fixpoint seeds (n : nat) (s : N) : list N :=
    match n with O => [] | S k => s :: seeds k (H salt s) end.

  Definition ppp (npeers : nat) : nat := N.to_nat (pcount / N.of_nat npeers + 1).

  Definition hashes_for (a : addr) (ix n : nat) : list part :=
    map (fun s => {| uhash := H a s; pix := ix |}) (seeds n seed0).

  Fixpoint parts_from (ix : nat) (ps : list addr) (n : nat) : list part :=
    match ps with
    | [] => []
    | a :: r => hashes_for a ix n ++ parts_from (S ix) r n
    end.

  (* d.peers *)
  Definition load_peers (peers : list addr) : list addr := if sortp then sort_addrs peers else peers.
  (* d.hashes before sort.Slice *)
  Definition partitions (lp : list addr) : list part := parts_from 0 lp (ppp (length lp)).

  (* what sort.Slice may return *)
  Definition le_uhash (p q : part) : Prop := (uhash p <= uhash q)%N.
  Definition hash_order (lp : list addr) (hs : list part) : Prop :=
    Permutation hs (partitions lp) /\ StronglySorted le_uhash hs.

  Definition better (h mx : N) : bool := if strict then N.ltb mx h else N.leb mx h.
  Fixpoint scan (tid : string) (hs : list part) (best : nat) (mx : N) : nat :=
    match hs with
    | [] => best
    | p :: r => let h := H tid (uhash p) in
                if better h mx then scan tid r (pix p) h else scan tid r best mx
    end.
  (* WhichShard on a sharder whose fields are peers = lp, hashes = hs *)
  Definition owner (lp : list addr) (hs : list part) (tid : string) : addr :=
    nth (scan tid hs 0%nat 0%N) lp EmptyString.

  (* the whole thing with the sort.Slice implementation as a function parameter *)
  Definition which_with (srt : list part -> list part) (peers : list addr) (tid : string) : addr :=
    let lp := load_peers peers in owner lp (srt (partitions lp)) tid.
  Definition which := which_with sort_parts.

  (* equal partition hashes only between partitions of the same address *)
  Definition benign (lp : list addr) : Prop :=
    forall p q, In p (partitions lp) -> In q (partitions lp) -> uhash p = uhash q ->
                nth (pix p) lp EmptyString = nth (pix q) lp EmptyString.

  (* ---- routing ---- *)
  Record node := { self : addr; view : list addr; nhs : list part }.

  Definition node_owner (nd : node) (tid : string) : addr := owner (load_peers (view nd)) (nhs nd) tid.
  Definition route (nd : node) (tid : string) : hop :=
    let o := node_owner nd tid in if String.eqb o (self nd) then Local else Forward o.

  Fixpoint find_node (a : addr) (nodes : list node) : option node :=
    match nodes with
    | [] => None
    | nd :: r => if String.eqb (self nd) a then Some nd else find_node a r
    end.

  (* a span entering the cluster at node address [at_]: the addresses it is forwarded to, and the
     address of the collector that finally receives it (None: out of fuel / unknown address) *)
  Fixpoint deliver (fuel : nat) (nodes : list node) (at_ : addr) (tid : string) : list addr * option addr :=
    match fuel with
    | O => ([], None)
    | S f => match find_node at_ nodes with
             | None => ([], None)
             | Some nd => match route nd tid with
                          | Local => ([], Some at_)
                          | Forward t => let '(h, c) := deliver f nodes t tid in (t :: h, c)
                          end
             end
    end.
End Shard.
