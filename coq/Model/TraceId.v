(* Executable model of trace-ID / root extraction (C21).

   Go (types/payload.go, after the fix commit)              model
   ------------------------------------------               -----
   Payload.extractCriticalFieldsFromBytes  (msgpack bytes,  step_bytes / run_bytes   (fields in WIRE order)
     used by /1/batch msgpack and JSON, OTLP msgp)
   Payload.ExtractMetadata over memoizedFields (Go map,     step_map / run_map       (fields in ITERATION order,
     used by /1/events JSON and msgpack, OTLP maps)                                    which Go randomises)
   route.processEvent: MetaTraceID == "" -> upstream,       outcome
     else Span{TraceID, IsRoot = MetaRefineryRoot.Value}

   An event is its list of (field name, value) pairs; only the TYPE of a value matters, and for
   strings the text.  No proofs in this file. *)
From Refinery Require Import Lib.Base.
Local Open Scope string_scope.

Inductive val :=
| VStr (s : string)     (* msgpack str / JSON string *)
| VBin (s : string)     (* msgpack bin *)
| VInt                  (* msgpack int / uint *)
| VFloat                (* msgpack float / any JSON number *)
| VBool (b : bool)
| VNil
| VOther.               (* map, array, extension *)

Notation field := (string * val)%type (only parsing).

(* expected type of a reserved metadata field (types.metadataFields) *)
Inductive mkind := MString | MBool | MInt.

(* What the model is parametric in.  [metas], the three key names and the log value are extracted
   from the Go source by the translator; the name lists are the TraceNames / ParentNames
   configuration of the case. *)
Record idcfg := {
  trace_names : list string;
  parent_names : list string;
  metas : list (string * mkind);
  k_trace_id : string;        (* types.MetaTraceID *)
  k_signal : string;          (* types.MetaSignalType *)
  k_root : string;            (* types.MetaRefineryRoot *)
  log_value : string;         (* "log" *)
  meta_prefix : string        (* "meta." *)
}.

(* ---------- string-keyed helpers ---------- *)
Fixpoint sindex_from (i : nat) (k : string) (l : list string) : option nat :=
  match l with
  | [] => None
  | x :: r => if String.eqb x k then Some i else sindex_from (S i) k r
  end.
Definition sindex (k : string) (l : list string) : option nat := sindex_from 0 k l.   (* sliceContains / slices.Index *)
Definition smem (k : string) (l : list string) : bool := existsb (fun x => String.eqb x k) l.

Fixpoint slookup {V} (k : string) (m : list (string * V)) : option V :=
  match m with
  | [] => None
  | (k', v) :: r => if String.eqb k' k then Some v else slookup k r
  end.

Definition is_empty (s : string) : bool := String.eqb s "".

(* ---------- extraction state ---------- *)
Record st := {
  s_tid : string;          (* p.MetaTraceID while scanning (only meta.trace_id writes it) *)
  s_sig : string;          (* p.MetaSignalType *)
  s_root : option bool;    (* p.MetaRefineryRoot: None = no value *)
  s_ftid : string;         (* fieldTraceID: best configured trace-ID field so far *)
  s_fidx : nat;            (* fieldTraceIDIdx: its position in TraceNames (length = none yet) *)
  s_err : bool             (* a read error: the request is rejected *)
}.

Definition init (c : idcfg) : st :=
  {| s_tid := ""; s_sig := ""; s_root := Some true; s_ftid := ""; s_fidx := length (trace_names c); s_err := false |}.

Definition set_tid x s := {| s_tid := x; s_sig := s_sig s; s_root := s_root s; s_ftid := s_ftid s; s_fidx := s_fidx s; s_err := s_err s |}.
Definition set_sig x s := {| s_tid := s_tid s; s_sig := x; s_root := s_root s; s_ftid := s_ftid s; s_fidx := s_fidx s; s_err := s_err s |}.
Definition set_root b s := {| s_tid := s_tid s; s_sig := s_sig s; s_root := b; s_ftid := s_ftid s; s_fidx := s_fidx s; s_err := s_err s |}.
Definition set_ftid x i s := {| s_tid := s_tid s; s_sig := s_sig s; s_root := s_root s; s_ftid := x; s_fidx := i; s_err := s_err s |}.
Definition set_err s := {| s_tid := s_tid s; s_sig := s_sig s; s_root := s_root s; s_ftid := s_ftid s; s_fidx := s_fidx s; s_err := true |}.

(* stringField.set / unmarshalMsgp for the fields this property reads; other string metadata is consumed and ignored *)
Definition set_meta_string (c : idcfg) (k x : string) (s : st) : st :=
  if String.eqb k (k_trace_id c) then set_tid x s
  else if String.eqb k (k_signal c) then set_sig x s
  else s.
Definition set_meta_bool (c : idcfg) (k : string) (b : bool) (s : st) : st :=
  if String.eqb k (k_root c) then set_root (Some b) s else s.

(* the parent-ID arm, shared by both paths *)
Definition parent_arm (c : idcfg) (k : string) (v : val) (s : st) : st :=
  if smem k (parent_names c)
  then match v with
       | VStr x => if is_empty x then s else set_root (Some false) s
       | _ => s
       end
  else s.

(* ---------- msgpack bytes, wire order: extractCriticalFieldsFromBytes ---------- *)
Definition step_bytes (c : idcfg) (s : st) (f : field) : st :=
  let '(k, v) := f in
  let meta :=                                   (* Some s' when consumed as a metadata field *)
    if String.prefix (meta_prefix c) k then
      match slookup k (metas c), v with
      | Some MString, VStr x => Some (set_meta_string c k x s)
      | Some MString, VBin _ => Some (set_err s)       (* typeIsCorrect accepts bin, ReadStringBytes does not *)
      | Some MBool, VBool b => Some (set_meta_bool c k b s)
      | Some MInt, VInt => Some s
      | _, _ => None
      end
    else None in
  match meta with
  | Some s' => s'
  | None =>
      match v with
      | VStr x =>
          match sindex k (trace_names c) with
          | Some idx =>
              if is_empty (s_tid s) && (idx <? s_fidx s)%nat
              then (if is_empty x then s else set_ftid x idx s)
              else parent_arm c k v s
          | None => parent_arm c k v s
          end
      | _ => s
      end
  end.

(* ---------- Go map, iteration order: ExtractMetadata ---------- *)
Definition step_map (c : idcfg) (s : st) (f : field) : st :=
  let '(k, v) := f in
  match slookup k (metas c) with
  | Some MString => match v with VStr x => set_meta_string c k x s | _ => s end
  | Some MBool => match v with VBool b => set_meta_bool c k b s | _ => s end
  | Some MInt => s
  | None =>
      match sindex k (trace_names c) with
      | Some idx =>
          match v with
          | VStr x => if negb (is_empty x) && (idx <? s_fidx s)%nat then set_ftid x idx s else s
          | _ => s
          end
      | None => parent_arm c k v s
      end
  end.

Definition run_bytes (c : idcfg) (fs : list field) : st := fold_left (step_bytes c) fs (init c).
Definition run_map (c : idcfg) (fs : list field) : st := fold_left (step_map c) fs (init c).

(* ---------- what route.processEvent does with the result ---------- *)
Inductive outcome :=
| ORejected                          (* error: the event is not processed *)
| ONoTrace                           (* no trace ID: sent straight upstream *)
| OSpan (tid : string) (root : bool) (* handed to the collector *)
| ODup.                              (* (observation only) handled more than once *)

Definition final_tid (s : st) : string := if is_empty (s_tid s) then s_ftid s else s_tid s.
Definition final_root (c : idcfg) (s : st) : bool :=
  if String.eqb (s_sig s) (log_value c) then false
  else match s_root s with Some b => b | None => false end.

Definition outcome_of (c : idcfg) (s : st) : outcome :=
  if s_err s then ORejected
  else if is_empty (final_tid s) then ONoTrace
  else OSpan (final_tid s) (final_root c s).

Definition outcome_bytes c fs := outcome_of c (run_bytes c fs).
Definition outcome_map c fs := outcome_of c (run_map c fs).

(* /1/events with a msgpack body is decoded into a Go map by vmihailenco/msgpack with
   UseLooseInterfaceDecoding(true), which turns a bin value into a Go string before the map path
   sees it.  (The batch paths keep the msgpack type and accept only str.) *)
Definition loosen_val (v : val) : val := match v with VBin x => VStr x | _ => v end.
Definition loosen (fs : list field) : list field := map (fun f => (fst f, loosen_val (snd f))) fs.
Definition outcome_loose c fs := outcome_map c (loosen fs).

(* ---------- the specification: no scanning, no order ---------- *)
(* the string a field holds ("" when absent or not a string) *)
Definition str_at (k : string) (fs : list field) : string :=
  match slookup k fs with Some (VStr x) => x | _ => "" end.

Fixpoint first_nonempty (l : list string) : string :=
  match l with
  | [] => ""
  | x :: r => if is_empty x then first_nonempty r else x
  end.

Definition spec_tid (c : idcfg) (fs : list field) : string :=
  if is_empty (str_at (k_trace_id c) fs)
  then first_nonempty (map (fun n => str_at n fs) (trace_names c))
  else str_at (k_trace_id c) fs.

Definition spec_root (c : idcfg) (fs : list field) : bool :=
  negb (is_empty (spec_tid c fs))
  && forallb (fun n => is_empty (str_at n fs)) (parent_names c)
  && negb (String.eqb (str_at (k_signal c) fs) (log_value c)).

Definition spec_outcome (c : idcfg) (fs : list field) : outcome :=
  if is_empty (spec_tid c fs) then ONoTrace else OSpan (spec_tid c fs) (spec_root c fs).

(* ---------- the events and configurations the property quantifies over ---------- *)
(* unique keys; no value under Refinery's own root flag; no binary value under a reserved string name *)
Fixpoint nodup_keys (fs : list field) : bool :=
  match fs with
  | [] => true
  | (k, _) :: r => negb (existsb (fun f => String.eqb (fst f) k) r) && nodup_keys r
  end.

Definition ev_ok (c : idcfg) (fs : list field) : bool :=
  nodup_keys fs
  && match slookup (k_root c) fs with None => true | Some _ => false end
  && forallb (fun f => match slookup (fst f) (metas c), snd f with
                       | Some MString, VBin _ => false
                       | _, _ => true end) fs.

(* no binary value in a field that the configuration or the reserved names make an ID field *)
Definition no_bin_ids (c : idcfg) (fs : list field) : bool :=
  forallb (fun f => match snd f with
                    | VBin _ => negb (smem (fst f) (trace_names c) || smem (fst f) (parent_names c)
                                      || String.eqb (fst f) (k_trace_id c) || String.eqb (fst f) (k_signal c))
                    | _ => true end) fs.

(* configured names are not reserved metadata names, and the two lists do not overlap *)
Definition cfg_ok (c : idcfg) : bool :=
  forallb (fun n => match slookup n (metas c) with None => true | Some _ => false end)
          (trace_names c ++ parent_names c)
  && forallb (fun n => negb (smem n (parent_names c))) (trace_names c).

(* the reserved-name table has the shape the model relies on *)
Definition table_ok (c : idcfg) : bool :=
  match slookup (k_trace_id c) (metas c), slookup (k_signal c) (metas c), slookup (k_root c) (metas c) with
  | Some MString, Some MString, Some MBool => true
  | _, _, _ => false
  end
  && negb (String.eqb (k_trace_id c) (k_signal c))
  && forallb (fun e => String.prefix (meta_prefix c) (fst e)) (metas c).

(* ---------- the standard instantiation ---------- *)
(* the reserved metadata fields of types/payload.go; Props/C21.v proves that the table extracted
   from the source by the translator is this one (the Monitor runs the model with it) *)
Definition std_metas : list (string * mkind) :=
  [("meta.signal_type", MString); ("meta.trace_id", MString); ("meta.annotation_type", MString);
   ("meta.refinery.probe", MBool); ("meta.refinery.root", MBool); ("meta.refinery.incoming_user_agent", MString);
   ("meta.refinery.local_hostname", MString); ("meta.stressed", MBool); ("meta.refinery.reason", MString);
   ("meta.refinery.send_reason", MString); ("meta.span_event_count", MInt); ("meta.span_link_count", MInt);
   ("meta.span_count", MInt); ("meta.event_count", MInt); ("meta.refinery.original_sample_rate", MInt);
   ("meta.refinery.final_sample_rate", MInt); ("meta.refinery.sample_key", MString)].

Definition std_cfg (tn pn : list string) : idcfg :=
  {| trace_names := tn; parent_names := pn; metas := std_metas;
     k_trace_id := "meta.trace_id"; k_signal := "meta.signal_type"; k_root := "meta.refinery.root";
     log_value := "log"; meta_prefix := "meta." |}.

