(* Executable model of the per-worker decision cache
     collect/cache/cuckooSentCache.go   (Record / CheckSpan / CheckTrace / Resize)
     collect/cache/cuckoo.go            (Add / drain / Maintain / SetNextCapacity)
     collect/cache/kept_reasons_cache.go(Set / Get)
   No proofs here (Proofs/SentCache.v).

   Go                                          model
   --                                          -----
   lru.Cache[string,*keptTraceCacheEntry]      [lru] : list (id * krec), NEWEST FIRST, at most [kcap] entries
     Add / Get / Keys                          lru_add / lru_get / (rev . map fst)
   KeptReasonsCache {data, keys}               [reasons] : data (append only) + hash -> index map;
                                               the hash (wyhash, random seed) is the parameter [h]
   CuckooTraceChecker {current,future,         [checker] : two IDEAL generations (list of inserted ids, insert
        capacity, addch}                        counter, slot count), the capacity for future filters,
                                               the add queue (FIFO bounded by AddQueueDepth)
   cuckoo.NewFilter(capacity) slot count       parameter [slots_of] (third-party sizing rule)
   recentDroppedIDs (SetWithTTL, 3 s)          [recent] : id -> expiry instant, [now]
   drain goroutine (100 us ticker)             explicit op [Drain] (any schedule of drains is a history)
   monitor goroutine (SizeCheckInterval)       explicit op [Maintain]
   Resize(cfg)                                 op [Resize keptSize droppedSize workerCount]

   Not modelled: cuckoo fingerprint collisions (false positives) and failed inserts of an over-full
   filter (the driver uses ids with pairwise distinct fingerprints and stops observing a history at the
   first failed insert), metrics, Stop.  The order in which CheckSpan / CheckTrace consult their three
   sources is NOT hard-wired: it is read from the source by the translator (GenC31). *)
From Refinery Require Import Lib.Base.
From Refinery Require Import Gen.GenC31.

Definition two32 : N := 4294967296%N.

(* the kept record stores the rate in a uint32 or in a uint, whichever NewKeptTraceCacheEntry does *)
Definition store_rate (r : N) : N := if kept_rate_is_uint32 then (r mod two32)%N else r.

(* ---------------- kept records and the LRU ---------------- *)
Record krec := { k_rate : N; k_reason : N; k_desc : N; k_sev : N; k_link : N; k_span : N }.

Definition lru := list (N * krec).        (* newest first *)

(* simplelru.Add: existing key -> move to front with the new value; otherwise push front and, if the
   list is now longer than the size, remove the oldest (exactly one). *)
Definition lru_add (cap : N) (k : N) (v : krec) (l : lru) : lru :=
  match alookup k l with
  | Some _ => (k, v) :: aremove k l
  | None => let l' := (k, v) :: l in
            if (cap <? N.of_nat (length l'))%N then removelast l' else l'
  end.

(* simplelru.Get with move-to-front (touch = true) or Peek (touch = false) *)
Definition lru_get (touch : bool) (k : N) (l : lru) : option (krec * lru) :=
  match alookup k l with
  | Some v => Some (v, if touch then (k, v) :: aremove k l else l)
  | None => None
  end.

(* replace the value of a present key in place (the entry is a pointer: Count mutates it) *)
Fixpoint lru_update (k : N) (v : krec) (l : lru) : lru :=
  match l with
  | [] => []
  | (k', v') :: r => if N.eqb k k' then (k', v) :: r else (k', v') :: lru_update k v r
  end.

(* keptTraceCacheEntry.Count: annotation 1 = span_event, 2 = link, anything else = span *)
Definition krec_count (ann : N) (r : krec) : krec :=
  {| k_rate := k_rate r; k_reason := k_reason r;
     k_desc := k_desc r + 1;
     k_sev := if N.eqb ann 1 then k_sev r + 1 else k_sev r;
     k_link := if N.eqb ann 2 then k_link r + 1 else k_link r;
     k_span := if N.eqb ann 1 || N.eqb ann 2 then k_span r else k_span r + 1 |}%N.

(* ---------------- reasons interning ---------------- *)
Record reasons := { r_data : list string; r_keys : amap N }.
Definition reasons_init : reasons := {| r_data := []; r_keys := [] |}.

Section Hash.
Variable h : string -> N.          (* wyhash.Hash(key, seed) *)

Definition reasons_set (rc : reasons) (s : string) : reasons * N :=
  match alookup (h s) (r_keys rc) with
  | Some v => (rc, v)
  | None => let d := r_data rc ++ [s] in
            let v := N.of_nat (length d) in
            ({| r_data := d; r_keys := aset (h s) v (r_keys rc) |}, v)
  end.

Definition reasons_get (rc : reasons) (key : N) : option string :=
  if N.eqb key 0 then None
  else if (N.of_nat (length (r_data rc)) <? key)%N then None
  else nth_error (r_data rc) (N.to_nat (key - 1)).

(* ---------------- the dropped-trace filter ---------------- *)
Record gen := { g_items : list N; g_count : N; g_slots : N; g_cap : N }.

Variable slots_of : N -> N.        (* slots of cuckoo.NewFilter(capacity) *)

Definition new_gen (cap : N) : gen := {| g_items := []; g_count := 0; g_slots := slots_of cap; g_cap := cap |}.
Definition gen_insert (x : N) (g : gen) : gen :=
  {| g_items := x :: g_items g; g_count := g_count g + 1; g_slots := g_slots g; g_cap := g_cap g |}.

(* LoadFactor() > num/den, exact in rationals (count/slots is exact in binary64: slots is a power of two) *)
Definition load_gt (num den : N) (g : gen) : bool := (num * g_slots g <? den * g_count g)%N.

Record checker := { cur : gen; fut : option gen; capa : N; queue : list N }.   (* queue: oldest first *)

Definition checker_init (cap : N) : checker :=
  {| cur := new_gen cap; fut := None; capa := cap; queue := [] |}.

(* Add: non-blocking send on a channel of capacity AddQueueDepth *)
Definition chk_add (x : N) (c : checker) : checker :=
  if (N.of_nat (length (queue c)) <? add_queue_depth)%N
  then {| cur := cur c; fut := fut c; capa := capa c; queue := queue c ++ [x] |}
  else c.

(* drain: everything queued goes into current and, when it exists, into future, in FIFO order *)
Definition chk_drain (c : checker) : checker :=
  {| cur := fold_left (fun g x => gen_insert x g) (queue c) (cur c);
     fut := option_map (fun f => fold_left (fun g x => gen_insert x g) (queue c) f) (fut c);
     capa := capa c; queue := [] |}.

(* Maintain: drain; the load factor of current is read once; future is created above the "half"
   threshold; above the "full" threshold current := future and a new empty future is created. *)
Definition chk_rotates (c : checker) : bool := load_gt full_num full_den (cur (chk_drain c)).

Definition chk_maintain (c : checker) : checker :=
  let c1 := chk_drain c in
  let half := load_gt half_num half_den (cur c1) in
  let full := load_gt full_num full_den (cur c1) in
  let f1 := match fut c1 with
            | None => if half then Some (new_gen (capa c1)) else None
            | Some f => Some f end in
  if full
  then {| cur := match f1 with Some f => f | None => new_gen (capa c1) end;   (* None: Go would install nil *)
          fut := (if rotation_creates_future then Some (new_gen (capa c1)) else None);   (* as the source does *)
          capa := capa c1; queue := [] |}
  else {| cur := cur c1; fut := f1; capa := capa c1; queue := [] |}.

Definition chk_check (x : N) (c : checker) : bool := mem_N x (g_items (cur c)).

(* ---------------- the cache ---------------- *)
Record cache := { kept : lru; kcap : N; rs : reasons; chk : checker; recent : amap Z; now : Z }.

(* config.SampleCacheConfig.Get{Kept,Dropped}SizePerWorker for WorkerCount >= 1 *)
Definition per_worker (size wc : N) : N := ((size + wc - 1) / N.max wc 1)%N.

Definition cache_init (ksz dsz wc : N) (t0 : Z) : cache :=
  {| kept := []; kcap := per_worker ksz wc; rs := reasons_init;
     chk := checker_init (per_worker dsz wc); recent := []; now := t0 |}.

Inductive ans :=
| AUnit
| ANotFound
| ADropped
| AKept (rate desc sev link span : N) (reason : string)
| AState (ccount cslots : N) (f : option (N * N)) (qlen : N).

Inductive op :=
| RecKept (id rate : N) (reason : string) (desc sev link span : N)
| RecDropped (id : N)
| ChkSpan (id ann : N)
| ChkTrace (id : N)
| Drain
| Maintain
| Resize (ksz dsz wc : N)
| Advance (d : Z).

Definition upd_kept (c : cache) (l : lru) : cache :=
  {| kept := l; kcap := kcap c; rs := rs c; chk := chk c; recent := recent c; now := now c |}.
Definition upd_chk (c : cache) (k : checker) : cache :=
  {| kept := kept c; kcap := kcap c; rs := rs c; chk := k; recent := recent c; now := now c |}.
Definition upd_recent (c : cache) (m : amap Z) : cache :=
  {| kept := kept c; kcap := kcap c; rs := rs c; chk := chk c; recent := m; now := now c |}.

(* SetWithTTL.Contains: present and not (expiry < now) *)
Definition recent_contains (x : N) (c : cache) : bool :=
  match alookup x (recent c) with Some e => negb (e <? now c) | None => false end.
Definition recent_add (x : N) (c : cache) : cache := upd_recent c (aset x (now c + recent_drop_ttl) (recent c)).

(* the three sources a lookup may consult, in the order found in the source text *)
Inductive src := SRecent | SDropped | SKept (touch : bool).
Definition src_of (s : string) : option src :=
  if String.eqb s "c.recentDroppedIDs.Contains" then Some SRecent
  else if String.eqb s "c.dropped.Check" then Some SDropped
  else if String.eqb s "c.kept.Get" then Some (SKept true)
  else if String.eqb s "c.kept.Peek" then Some (SKept false)
  else None.
Fixpoint srcs_of (l : list string) : list src :=
  match l with
  | [] => []
  | s :: r => match src_of s with Some x => x :: srcs_of r | None => srcs_of r end
  end.
Definition span_order : list src := srcs_of checkspan_lookup_order.
Definition trace_order : list src := srcs_of checktrace_lookup_order.

Definition kept_answer (c : cache) (r : krec) : ans :=
  AKept (k_rate r) (k_desc r) (k_sev r) (k_link r) (k_span r)
        (match reasons_get (rs c) (k_reason r) with Some s => s | None => EmptyString end).

(* span = Some ann : CheckSpan (refreshes / fills the recent set, counts the span into a kept record)
   span = None     : CheckTrace *)
Fixpoint lookup (order : list src) (span : option N) (x : N) (c : cache) : cache * ans :=
  match order with
  | [] => (c, ANotFound)
  | SRecent :: r =>
      if recent_contains x c then (recent_add x c, ADropped) else lookup r span x c
  | SDropped :: r =>
      if chk_check x (chk c)
      then ((match span with Some _ => recent_add x c | None => c end), ADropped)
      else lookup r span x c
  | SKept touch :: r =>
      match lru_get touch x (kept c) with
      | Some (v, l) =>
          let v' := match span with Some ann => krec_count ann v | None => v end in
          let c' := upd_kept c (lru_update x v' l) in
          (c', kept_answer c' v')
      | None => lookup r span x c
      end
  end.

Definition state_ans (k : checker) : ans :=
  AState (g_count (cur k)) (g_slots (cur k))
         (option_map (fun f => (g_count f, g_slots f)) (fut k)) (N.of_nat (length (queue k))).

Definition step (c : cache) (o : op) : cache * ans :=
  match o with
  | RecKept id rate reason desc sev link span =>
      let '(rs', idx) := reasons_set (rs c) reason in
      let v := {| k_rate := store_rate rate; k_reason := idx mod two32;
                  k_desc := desc; k_sev := sev; k_link := link; k_span := span |}%N in
      ({| kept := lru_add (kcap c) id v (kept c); kcap := kcap c; rs := rs';
          chk := chk c; recent := recent c; now := now c |}, AUnit)
  | RecDropped id =>
      (upd_chk (recent_add id c) (chk_add id (chk c)), AUnit)
  | ChkSpan id ann => lookup span_order (Some ann) id c
  | ChkTrace id => lookup trace_order None id c
  | Drain => let k := chk_drain (chk c) in (upd_chk c k, state_ans k)
  | Maintain => let k := chk_maintain (chk c) in (upd_chk c k, state_ans k)
  | Resize ksz dsz wc =>
      let kc := per_worker ksz wc in
      if N.eqb kc 0 then (c, AUnit)      (* lru.New fails: Resize returns the error, nothing changed *)
      else
        (* keys oldest -> newest, keep the last kc, re-add in that order to an empty LRU of size kc *)
        let keys := rev (map fst (kept c)) in
        let keys' := skipn (length keys - N.to_nat kc) keys in
        let l' := fold_left (fun acc k => match alookup k (kept c) with
                                          | Some v => lru_add kc k v acc | None => acc end) keys' [] in
        ({| kept := l'; kcap := kc; rs := rs c;
            chk := {| cur := cur (chk c); fut := fut (chk c); capa := per_worker dsz wc; queue := queue (chk c) |};
            recent := recent c; now := now c |}, AUnit)
  | Advance d => ({| kept := kept c; kcap := kcap c; rs := rs c; chk := chk c; recent := recent c; now := now c + d |}, AUnit)
  end.

Fixpoint run (c : cache) (ops : list op) : cache :=
  match ops with [] => c | o :: r => run (fst (step c o)) r end.

Fixpoint run_out (c : cache) (ops : list op) : list ans :=
  match ops with [] => [] | o :: r => let '(c', a) := step c o in a :: run_out c' r end.

(* ---------------- vocabulary of the specification ---------------- *)
(* number of Maintain calls in a history that found the current filter above the "full" threshold *)
Fixpoint rotations (c : cache) (ops : list op) : nat :=
  match ops with
  | [] => 0%nat
  | o :: r => ((match o with Maintain => if chk_rotates (chk c) then 1 else 0 | _ => 0 end)
               + rotations (fst (step c o)) r)%nat
  end.

(* ids other than x that a history records as kept or consults *)
Fixpoint touched_others (x : N) (ops : list op) : list N :=
  match ops with
  | [] => []
  | o :: r =>
      let t := touched_others x r in
      match o with
      | RecKept id _ _ _ _ _ _ | ChkSpan id _ | ChkTrace id => if N.eqb id x then t else id :: t
      | _ => t
      end
  end.

(* the smallest kept capacity in force during a history *)
Fixpoint min_cap (cap : N) (ops : list op) : N :=
  match ops with
  | [] => cap
  | Resize ksz _ wc :: r =>
      let kc := per_worker ksz wc in
      if N.eqb kc 0 then min_cap cap r else N.min cap (min_cap kc r)
  | _ :: r => min_cap cap r
  end.

Definition records_kept (x : N) (o : op) : bool :=
  match o with RecKept id _ _ _ _ _ _ => N.eqb id x | _ => false end.
End Hash.
