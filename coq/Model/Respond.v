(* Executable model of the response / side-effect behaviour of Refinery's six ingestion entry points
   (route/route.go event, batch, processOTLPRequest, processOTLPRequestBatchMsgp, processEvent;
    route/otlp_trace.go postOTLPTrace, customTraceExportHandler, ExportTraceData;
    route/otlp_logs.go postOTLPLogs, LogsServer.Export; route/middleware.go apiKeyProcessor;
    route/errors.go handlerReturnWithError).

   A handler is a function   request (with injected faults)  ->  list action   where the actions are, in
   program order, the calls the handler makes on the http.ResponseWriter (WriteHeader / one body
   document) and on the collector and the two transmissions.  The model is parametric in [params]:
   the status codes of the handlerError table, the batch item statuses, and - the part that matters -
   whether [batch] returns after reporting a dataset / environment error and whether the OTLP
   processors propagate an environment-lookup error.  [gen_params] instantiates them from
   Gen/GenC23.v, i.e. from the source text of the working tree.

   Third-party outcomes are inputs: the per-event class (what ExtractMetadata / the sharder decide),
   the collector's admission answers ([r_admit], the i-th AddSpan call), and the status codes husky
   and grpc-go attach to their own errors ([r_ext]).  No proofs in this file. *)
From Refinery Require Import Lib.Base Gen.GenC23.

Inductive endpoint := EpEvent | EpBatch | EpOtlpTraceHttp | EpOtlpLogsHttp | EpOtlpTraceGrpc | EpOtlpLogsGrpc.

(* what an event is, as far as routing is concerned *)
Inductive evclass :=
| EvEmpty      (* no fields at all: "empty event data" *)
| EvProbe      (* meta.refinery.probe = true: dropped on purpose, silently *)
| EvNonTrace   (* no trace id: straight to the upstream transmission *)
| EvPeer       (* trace owned by another node: to the peer transmission *)
| EvMine.      (* trace owned by this node: Collector.AddSpan / AddSpanFromPeer *)

Record faults := {
  f_auth : bool;      (* the key is not accepted (AcceptOnlyListedKeys) *)
  f_body : bool;      (* reading / decompressing the body fails *)
  f_dataset : bool;   (* getDatasetFromRequest fails (only reachable below the mux) *)
  f_env : bool;       (* the environment lookup (Honeycomb /1/auth) fails *)
  f_parse : bool;     (* the body does not parse *)
  f_ctype : bool      (* OTLP/HTTP: unsupported content type *)
}.

(* status codes decided by husky / grpc-go, handed over by the harness from the libraries' own constants *)
Record ext := { x_ctype : N; x_parse : N; x_grpc_unauth : N; x_grpc_internal : N }.

Record request := {
  r_ep : endpoint;
  r_direct : bool;                 (* handler called below the mux (no apiKeyProcessor) *)
  r_legacy : bool;                 (* classic key: no environment lookup happens *)
  r_f : faults;
  r_events : list (N * evclass);   (* (label, class) in request order *)
  r_admit : list bool;             (* collector's answer to the i-th AddSpan; accept when exhausted *)
  r_ext : ext
}.

Inductive doc := DErr | DList (l : list N) | DOther.

Inductive action :=
| AHdr (c : N)                 (* WriteHeader(c) / the gRPC status *)
| ADoc (d : doc)               (* one document written to the body *)
| AAdd (id : N) (ok : bool)    (* Collector.AddSpan attempt and its answer *)
| AUp (id : N)                 (* UpstreamTransmission.EnqueueEvent *)
| APeer (id : N).              (* PeerTransmission.EnqueueEvent *)

Record params := {
  p_auth : N;                 (* apiKeyProcessor: IsAccepted failed *)
  p_e_body : N; p_e_req : N; p_e_proc : N;                       (* event *)
  p_b_body : N; p_b_ds : N * bool; p_b_env : N * bool; p_b_parse : N;   (* batch: (status, returns afterwards) *)
  p_others_return : bool;     (* every other error report of event / batch / apiKeyProcessor / postOTLPTrace / postOTLPLogs
                                 is followed by return (the model assumes it; params_ok demands it) *)
  p_item_ok : N; p_item_full : N; p_item_bad : N;                (* batch item statuses *)
  p_env_map : bool; p_env_msgp : bool;   (* processOTLPRequest / ...BatchMsgp propagate the lookup error *)
  p_grpc_trace_auth_first : bool;        (* customTraceExportHandler checks acceptance before it decodes the message *)
  p_ot_auth : N; p_ot_other : N;         (* postOTLPTrace: not accepted; error not otherwise classified *)
  p_ol_auth : N; p_ol_translate : N; p_ol_process : N   (* postOTLPLogs *)
}.

(* ---- instantiation from the generated tables ------------------------------------------------ *)
Fixpoint slookup {V} (k : string) (l : list (string * V)) : option V :=
  match l with
  | [] => None
  | (k', v) :: r => if String.eqb k k' then Some v else slookup k r
  end.

Definition err_status (name : string) : N :=
  match slookup name c23_handler_errors with Some (st, _) => st | None => 0 end.

(* (status, returns) of the error report that follows a call to [callee] in a handler *)
Definition step (tbl : list (string * (string * bool))) (callee : string) : N * bool :=
  match slookup callee tbl with Some (e, ret) => (err_status e, ret) | None => (0, false)%N end.

(* does "accept" come before "translate" (= dec(in)) in the extracted step order? *)
Fixpoint accept_before_translate (l : list string) : bool :=
  match l with
  | [] => false
  | s :: r => if String.eqb s "accept" then true else if String.eqb s "translate" then false
              else accept_before_translate r
  end.

Definition gen_params : params := {|
  p_auth := fst (step c23_auth_steps "keycfg.IsAccepted");
  p_e_body := fst (step c23_event_steps "r.readAndCloseMaybeCompressedBody");
  p_e_req := fst (step c23_event_steps "r.requestToEvent");
  p_e_proc := fst (step c23_event_steps "r.processEvent");
  p_b_body := fst (step c23_batch_steps "r.readAndCloseMaybeCompressedBody");
  p_b_ds := step c23_batch_steps "getDatasetFromRequest";
  p_b_env := step c23_batch_steps "r.getEnvironmentName";
  p_b_parse := fst (step c23_batch_steps "unmarshal");
  p_others_return :=
    snd (step c23_auth_steps "keycfg.IsAccepted") && snd (step c23_auth_steps "keycfg.GetReplaceKey") &&
    snd (step c23_event_steps "r.readAndCloseMaybeCompressedBody") && snd (step c23_event_steps "r.requestToEvent") &&
    snd (step c23_event_steps "r.processEvent") &&
    snd (step c23_batch_steps "r.readAndCloseMaybeCompressedBody") && snd (step c23_batch_steps "unmarshal") &&
    c23_otlp_trace_auth_returns && c23_otlp_trace_other_returns &&
    c23_otlp_logs_auth_returns && c23_otlp_logs_translate_returns && c23_otlp_logs_process_returns;
  p_item_ok := c23_item_ok; p_item_full := c23_item_full; p_item_bad := c23_item_bad;
  p_env_map := String.eqb c23_otlp_env_ret_map "err";
  p_env_msgp := String.eqb c23_otlp_env_ret_msgp "err";
  p_grpc_trace_auth_first := accept_before_translate c23_grpc_trace_script;
  p_ot_auth := c23_otlp_trace_auth; p_ot_other := c23_otlp_trace_other;
  p_ol_auth := c23_otlp_logs_auth; p_ol_translate := c23_otlp_logs_translate; p_ol_process := c23_otlp_logs_process
|}.

(* the pinned tree before the fix (used only for the _refuted theorems) *)
Definition pinned_params : params := {|
  p_auth := 401; p_e_body := 500; p_e_req := 400; p_e_proc := 400;
  p_b_body := 500; p_b_ds := (400, false); p_b_env := (400, false); p_b_parse := 400;
  p_others_return := true; p_item_ok := 202; p_item_full := 429; p_item_bad := 400;
  p_env_map := false; p_env_msgp := false; p_grpc_trace_auth_first := false;
  p_ot_auth := 401; p_ot_other := 500; p_ol_auth := 401; p_ol_translate := 500; p_ol_process := 500 |}%N.

(* what the property needs of the parameters *)
Definition is_err_code (c : N) : bool := (400 <=? c)%N.
Definition params_ok (p : params) : bool :=
  is_err_code (p_auth p) && is_err_code (p_e_body p) && is_err_code (p_e_req p) && is_err_code (p_e_proc p) &&
  is_err_code (p_b_body p) && is_err_code (fst (p_b_ds p)) && snd (p_b_ds p) &&
  is_err_code (fst (p_b_env p)) && snd (p_b_env p) && is_err_code (p_b_parse p) && p_others_return p &&
  (p_item_ok p =? 202)%N && (p_item_full p =? 429)%N && (p_item_bad p =? 400)%N &&
  p_env_map p && p_env_msgp p &&
  is_err_code (p_ot_auth p) && is_err_code (p_ot_other p) &&
  is_err_code (p_ol_auth p) && is_err_code (p_ol_translate p) && is_err_code (p_ol_process p).

(* what the property needs of the third-party codes: they are error codes *)
Definition ext_ok (x : ext) : bool :=
  is_err_code (x_ctype x) && is_err_code (x_parse x) && negb (x_grpc_unauth x =? 0)%N && negb (x_grpc_internal x =? 0)%N.

(* ---- processEvent ---------------------------------------------------------------------------- *)
Inductive outcome := OInvalid | OProbe | OUp | OPeer | OAdded | ORefused.

Definition next_admit (a : list bool) : bool * list bool :=
  match a with [] => (true, []) | b :: r => (b, r) end.

(* one event through the body of the batch loop / processEvent *)
Definition process_event (id : N) (c : evclass) (a : list bool) : list action * outcome * list bool :=
  match c with
  | EvEmpty => ([], OInvalid, a)
  | EvProbe => ([], OProbe, a)
  | EvNonTrace => ([AUp id], OUp, a)
  | EvPeer => ([APeer id], OPeer, a)
  | EvMine => let '(b, a') := next_admit a in ([AAdd id b], if b then OAdded else ORefused, a')
  end.

Definition item_status (p : params) (o : outcome) : N :=
  match o with
  | ORefused => p_item_full p
  | OInvalid => p_item_bad p
  | _ => p_item_ok p
  end.

Fixpoint event_loop (evs : list (N * evclass)) (a : list bool) : list action * list outcome :=
  match evs with
  | [] => ([], [])
  | (id, c) :: r =>
      let '(acts, o, a') := process_event id c a in
      let '(ar, outs) := event_loop r a' in
      (acts ++ ar, o :: outs)
  end.

(* ---- handlers ---------------------------------------------------------------------------------- *)
Definition env_fails (r : request) : bool := f_env (r_f r) && negb (r_legacy r).

(* handlerReturnWithError(w, he, err) *)
Definition report (c : N) : list action := [AHdr c; ADoc DErr].

Definition first_event (r : request) : N * evclass :=
  match r_events r with e :: _ => e | [] => (0%N, EvEmpty) end.

Definition h_event (p : params) (r : request) : list action :=
  let f := r_f r in
  if f_body f then report (p_e_body p)
  else if f_dataset f || env_fails r || f_parse f then report (p_e_req p)
  else
    let '(id, c) := first_event r in
    match c with
    | EvEmpty => report (p_e_req p)
    | _ => let '(acts, o, _) := process_event id c (r_admit r) in
           acts ++ (match o with ORefused => report (p_e_proc p) | _ => [] end)
    end.

Definition h_batch (p : params) (r : request) : list action :=
  let f := r_f r in
  if f_body f then report (p_b_body p)
  else
    let k_loop :=
      if f_parse f then report (p_b_parse p)
      else let '(acts, outs) := event_loop (r_events r) (r_admit r) in
           acts ++ [ADoc (DList (map (item_status p) outs))] in
    let k_env :=
      if env_fails r then report (fst (p_b_env p)) ++ (if snd (p_b_env p) then [] else k_loop) else k_loop in
    if f_dataset f then report (fst (p_b_ds p)) ++ (if snd (p_b_ds p) then [] else k_env) else k_env.

(* the /1/ subrouter: apiKeyProcessor in front of the handler *)
Definition with_auth (p : params) (r : request) (k : list action) : list action :=
  if negb (r_direct r) && f_auth (r_f r) then report (p_auth p) else k.

(* processOTLPRequest / processOTLPRequestBatchMsgp: returns (actions, error?) *)
Definition otlp_process (propagates : bool) (r : request) : list action * bool :=
  if env_fails r then ([], propagates)
  else (fst (event_loop (r_events r) (r_admit r)), false).

Definition h_otlp_trace_http (p : params) (r : request) : list action :=
  let f := r_f r in let x := r_ext r in
  (* husky writes the response in the request's content type: with an unsupported one every
     response, whatever the handler wanted to say, is husky's "unsupported media type" *)
  if f_ctype f then [AHdr (x_ctype x)]
  else if f_auth f then [AHdr (p_ot_auth p)]
  else if f_body f || f_parse f then [AHdr (x_parse x)]
  else let '(acts, failed) := otlp_process (p_env_msgp p) r in
       acts ++ [AHdr (if failed then p_ot_other p else 200)].

Definition h_otlp_logs_http (p : params) (r : request) : list action :=
  let f := r_f r in let x := r_ext r in
  if f_ctype f then [AHdr (x_ctype x)]
  else if f_auth f then [AHdr (p_ol_auth p)]
  else if f_body f || f_parse f then [AHdr (p_ol_translate p)]
  else let '(acts, failed) := otlp_process (p_env_map p) r in
       acts ++ [AHdr (if failed then p_ol_process p else 200)].

(* gRPC: grpc-go decodes the message before a generated handler runs (logs); the custom trace handler
   decodes it itself, after ([auth_first]) or before its acceptance check *)
Definition h_otlp_grpc (propagates auth_first : bool) (r : request) : list action :=
  let f := r_f r in let x := r_ext r in
  if auth_first && f_auth f then [AHdr (x_grpc_unauth x)]
  else if f_parse f then [AHdr (x_grpc_internal x)]
  else if f_auth f then [AHdr (x_grpc_unauth x)]
  else let '(acts, failed) := otlp_process propagates r in
       acts ++ [AHdr (if failed then x_grpc_internal x else 0)].

Definition handle (p : params) (r : request) : list action :=
  match r_ep r with
  | EpEvent => with_auth p r (h_event p r)
  | EpBatch => with_auth p r (h_batch p r)
  | EpOtlpTraceHttp => h_otlp_trace_http p r
  | EpOtlpLogsHttp => h_otlp_logs_http p r
  | EpOtlpTraceGrpc => h_otlp_grpc (p_env_msgp p) (p_grpc_trace_auth_first p) r
  | EpOtlpLogsGrpc => h_otlp_grpc (p_env_map p) false r
  end.

(* ---- what a client and the downstream components observe ---------------------------------------- *)
Record obs := {
  ob_status : N;                (* status in effect: first WriteHeader, 200 at the first body write, 200 if nothing *)
  ob_hdr_calls : N;             (* times a status was set: WriteHeader calls + an implicit 200 at a first body write *)
  ob_docs : list doc;           (* documents in the body, in order *)
  ob_adds : list (N * bool);    (* AddSpan attempts, in order *)
  ob_up : list N;               (* upstream enqueues *)
  ob_peer : list N              (* peer enqueues *)
}.

Fixpoint first_status (tr : list action) : option N :=
  match tr with
  | [] => None
  | AHdr c :: _ => Some c
  | ADoc _ :: _ => Some 200%N
  | _ :: r => first_status r
  end.

Definition hdrs_of (tr : list action) : list N :=
  flat_map (fun a => match a with AHdr c => [c] | _ => [] end) tr.
Definition docs_of (tr : list action) : list doc :=
  flat_map (fun a => match a with ADoc d => [d] | _ => [] end) tr.
Definition adds_of (tr : list action) : list (N * bool) :=
  flat_map (fun a => match a with AAdd i b => [(i, b)] | _ => [] end) tr.
Definition ups_of (tr : list action) : list N :=
  flat_map (fun a => match a with AUp i => [i] | _ => [] end) tr.
Definition peers_of (tr : list action) : list N :=
  flat_map (fun a => match a with APeer i => [i] | _ => [] end) tr.

(* a body document written before any WriteHeader sets the status implicitly *)
Fixpoint implicit_status (tr : list action) : nat :=
  match tr with
  | [] => 0
  | AHdr _ :: _ => 0
  | ADoc _ :: _ => 1
  | _ :: r => implicit_status r
  end.

Definition observe (tr : list action) : obs := {|
  ob_status := match first_status tr with Some c => c | None => 200%N end;
  ob_hdr_calls := N.of_nat (length (hdrs_of tr) + implicit_status tr);
  ob_docs := docs_of tr;
  ob_adds := adds_of tr;
  ob_up := ups_of tr;
  ob_peer := peers_of tr |}.

(* ---- the specification ---------------------------------------------------------------------------- *)
Definition is_grpc (e : endpoint) : bool :=
  match e with EpOtlpTraceGrpc | EpOtlpLogsGrpc => true | _ => false end.
Definition is_v1 (e : endpoint) : bool :=
  match e with EpEvent | EpBatch => true | _ => false end.

(* an error status for the request as a whole *)
Definition is_error (e : endpoint) (st : N) : bool :=
  if is_grpc e then negb (st =? 0)%N else (400 <=? st)%N.

(* events that were forwarded or buffered *)
Definition effects (o : obs) : list N :=
  map fst (filter (fun x => snd x) (ob_adds o)) ++ ob_up o ++ ob_peer o.

(* the events the request carries, as the endpoint sees them *)
Definition req_events (r : request) : list (N * evclass) :=
  match r_ep r with EpEvent => [first_event r] | _ => r_events r end.

(* [replay evs adds ups peers = Some outs]: going through the request's events in order, every event that
   should reach the collector / a transmission did so exactly once, in order, nothing else did, and
   [outs] is what happened to each event. *)
Fixpoint replay (evs : list (N * evclass)) (adds : list (N * bool)) (ups peers : list N) : option (list outcome) :=
  match evs with
  | [] => match adds, ups, peers with [], [], [] => Some [] | _, _, _ => None end
  | (id, c) :: r =>
      match c with
      | EvEmpty => option_map (cons OInvalid) (replay r adds ups peers)
      | EvProbe => option_map (cons OProbe) (replay r adds ups peers)
      | EvNonTrace =>
          match ups with
          | u :: ups' => if (u =? id)%N then option_map (cons OUp) (replay r adds ups' peers) else None
          | [] => None
          end
      | EvPeer =>
          match peers with
          | u :: peers' => if (u =? id)%N then option_map (cons OPeer) (replay r adds ups peers') else None
          | [] => None
          end
      | EvMine =>
          match adds with
          | (i, b) :: adds' =>
              if (i =? id)%N then option_map (cons (if b then OAdded else ORefused)) (replay r adds' ups peers) else None
          | [] => None
          end
      end
  end.

(* the statuses the property text prescribes for batch items *)
Definition std_status (o : outcome) : N :=
  match o with ORefused => 429 | OInvalid => 400 | _ => 202 end%N.
Definition accepted (o : outcome) : Prop := o = OProbe \/ o = OUp \/ o = OPeer \/ o = OAdded.

(* ---- the property as a boolean monitor over (request, observation) -------------------------------- *)
Definition doc_eqb (a b : doc) : bool :=
  match a, b with
  | DErr, DErr => true
  | DList x, DList y => list_eqb N.eqb x y
  | DOther, DOther => true
  | _, _ => false
  end.
Definition is_nil {A} (l : list A) : bool := match l with [] => true | _ => false end.

(* the property, as a boolean monitor over what was observed *)
Definition check_obs (r : request) (o : obs) : codes :=
  let e := r_ep r in
  let err := is_error e (ob_status o) in
  (if err && negb (is_nil (effects o)) then [10%N] else []) ++
  (if err then []
   else match replay (req_events r) (ob_adds o) (ob_up o) (ob_peer o) with
        | None => [11%N]
        | Some outs =>
            match e with
            | EpBatch => if list_eqb doc_eqb (ob_docs o) [DList (map std_status outs)] then [] else [12%N]
            | _ => []
            end
        end) ++
  (if (ob_hdr_calls o <=? 1)%N &&
      (if is_v1 e
       then (if err then list_eqb doc_eqb (ob_docs o) [DErr]
             else match e with EpBatch => (length (ob_docs o) <=? 1)%nat | _ => is_nil (ob_docs o) end)
       else true)
   then [] else [13%N]).

