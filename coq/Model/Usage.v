(* Executable model of agent/usage_report.go (usageTracker) and of Agent.sendUsageReport, and the
   accounting specification of C34.  Signals are N (1 traces, 2 logs, 3 events_received,
   4 events_dropped); cumulative readings and deltas are Z (the code uses float64 holding integers).

   Go                                               model
   --                                               -----
   usageTracker.Add(signal, data)                   UAdd sig data   ignored when data == 0; cur[sig] += data - lastUsage[sig]; lastUsage[sig] = data
   Agent.sendUsageReport()                          UReport r1 r2   r1, r2 = what SendCustomMessage answers on the first / second call
     NewReport: errNoData when both maps are empty;                 payload = data points of cur, then of lastp (unconfirmed ones of the previous report)
                a negative value -> error, no report                (addOTLPSum / convertFloat64ToInt64)
                lastp := cur merged with the old lastp  (after the fix; before: lastp := cur, see ureport_orig)
     first call ok -> completeSend (lastp := {});  ErrCustomMessagePending -> one retry;  any other error -> give up *)
From Refinery Require Import Lib.Base.

Inductive sres := ROk | RPending | RErr.
Inductive uop := UAdd (sig : N) (data : Z) | UReport (r1 r2 : sres).
Inductive uout :=
| ONone | ONoData | OError
| OReport (payload : list (N * Z)) (attempts : N) (sent : bool).

Record ustate := { lastUsage : amap Z; cur : amap Z; lastp : amap Z }.
Definition uinit : ustate := {| lastUsage := []; cur := []; lastp := [] |}.

Definition tot (m : amap Z) (k : N) : Z := match alookup k m with Some v => v | None => 0 end.
(* m[k] += v *)
Definition addv (k : N) (v : Z) (m : amap Z) : amap Z := aset k (tot m k + v) m.
(* for k, v := range extra { m[k] += v } *)
Definition merge (extra m : amap Z) : amap Z := fold_right (fun kv acc => addv (fst kv) (snd kv) acc) m extra.

Definition uadd (s : ustate) (sig : N) (data : Z) : ustate :=
  if data =? 0 then s else
  {| lastUsage := aset sig data (lastUsage s);
     cur := addv sig (data - tot (lastUsage s) sig) (cur s);
     lastp := lastp s |}.

Definition complete (s : ustate) : ustate := {| lastUsage := lastUsage s; cur := cur s; lastp := [] |}.

Definition is_nil {A} (l : list A) : bool := match l with [] => true | _ => false end.

Definition ureport_gen (fold_unsent : bool) (s : ustate) (r1 r2 : sres) : ustate * uout :=
  if is_nil (cur s) && is_nil (lastp s) then (s, ONoData) else
  let payload := cur s ++ lastp s in
  if existsb (fun kv => snd kv <? 0) payload then (s, OError) else
  let s1 := {| lastUsage := lastUsage s; cur := [];
               lastp := if fold_unsent then merge (lastp s) (cur s) else cur s |} in
  match r1 with
  | ROk => (complete s1, OReport payload 1 true)
  | RErr => (s1, OReport payload 1 false)
  | RPending => match r2 with
                | ROk => (complete s1, OReport payload 2 true)
                | _ => (s1, OReport payload 2 false)
                end
  end.
Definition ureport := ureport_gen true.         (* the code after the fix *)
Definition ureport_orig := ureport_gen false.   (* the pinned code: unconfirmed points of the previous report are dropped *)

Definition ustep_gen (f : bool) (s : ustate) (o : uop) : ustate * uout :=
  match o with
  | UAdd sig data => (uadd s sig data, ONone)
  | UReport r1 r2 => ureport_gen f s r1 r2
  end.
Definition ustep := ustep_gen true.

Fixpoint urun_gen (f : bool) (s : ustate) (ops : list uop) : ustate * list uout :=
  match ops with
  | [] => (s, [])
  | o :: r => let '(s1, out) := ustep_gen f s o in
              let '(s2, outs) := urun_gen f s1 r in (s2, out :: outs)
  end.
Definition urun := urun_gen true.

(* ---------------- accounting ---------------- *)
Definition psum (l : list (N * Z)) (k : N) : Z :=
  fold_right (fun kv acc => (if N.eqb (fst kv) k then snd kv else 0) + acc) 0 l.
(* usage carried by successfully sent reports *)
Definition sent_of (outs : list uout) (k : N) : Z :=
  fold_right (fun o acc => match o with OReport p _ true => psum p k | _ => 0 end + acc) 0 outs.
(* what is still waiting to be sent *)
Definition pending (s : ustate) (k : N) : Z := tot (cur s) k + tot (lastp s) k.
(* growth of the counter of k: its latest nonzero reading (counters start at 0) *)
Fixpoint last_reading (ops : list uop) (k : N) (acc : Z) : Z :=
  match ops with
  | [] => acc
  | UAdd sig data :: r => last_reading r k (if N.eqb sig k && negb (data =? 0) then data else acc)
  | _ :: r => last_reading r k acc
  end.
(* counters never decrease (and are never negative) *)
Fixpoint monotone (ops : list uop) (lastr : amap Z) : bool :=
  match ops with
  | [] => true
  | UAdd sig data :: r => (tot lastr sig <=? data) && (0 <=? data) &&
                          monotone r (if data =? 0 then lastr else aset sig data lastr)
  | _ :: r => monotone r lastr
  end.
