(* The DOCUMENTED semantics of the rules sampler (rules.md, rules_conditions.md), written
   declaratively and independently of the control flow of the Go code:

   * a condition reads, on a span, the first of its Fields that is present; a `root.` field is read
     from the root span (absent when the trace has no root span); `?.NUM_DESCENDANTS` is the
     number of spans of the trace;
   * a condition on an absent field matches only under not-exists;
   * with a Datatype both sides are coerced to it and compared as that type; `in`/`not-in` coerce
     every list item (default string); starts-with / contains / does-not-contain / matches work on
     the %v text; without Datatype the comparison is the untyped one ([compare_untyped]);
   * scope trace: every condition is matched by SOME span (has-root-span looks at the trace);
     scope span: ONE span matches every condition (has-root-span can never match there);
   * the first rule, in configuration order, whose conditions all match is applied:
     downstream sampler, else Drop, else SampleRate N (keep iff the draw from [0,N) is 0);
     no rule: keep at rate 1.

   The condition-matching function is a parameter [cm] of the rule-level definitions so that the
   monitor can also evaluate a deliberately wrong variant when classifying a violation.
   No proofs here. *)
From Refinery Require Import Lib.Base Model.Values Model.Rules Gen.GenC08.
Local Open Scope string_scope.
Local Open Scope Z_scope.

Definition cmp_holds (o : op) (r : comparison) : bool :=
  match o, r with
  | OpEq, Eq | OpNe, Lt | OpNe, Gt | OpGt, Gt | OpGe, Gt | OpGe, Eq
  | OpLt, Lt | OpLe, Lt | OpLe, Eq => true
  | _, _ => false
  end.

Inductive tv := TStr (s : string) | TInt (z : Z) | TFloat (d : dy) | TBool (b : bool).
Definition tv_cmp (a b : tv) : option comparison :=
  match a, b with
  | TStr x, TStr y => Some (String.compare x y)
  | TInt x, TInt y => Some (Z.compare x y)
  | TFloat x, TFloat y => Some (dy_cmp x y)
  | TBool x, TBool y => Some (Bool.compare x y)
  | _, _ => None
  end.
Definition tv_eqb (a b : tv) : bool :=
  match tv_cmp a b with Some Eq => true | _ => false end.

Definition is_some {A} (o : option A) : bool := match o with Some _ => true | None => false end.

Section Spec.
  Variable fmtv : dy -> string.
  Variable parsef : string -> option dy.
  Variable rx : string -> option (string -> bool).

  (* ---- which value a condition reads ---- *)
  Definition field_on (t : trace) (sp : span) (f : string) : option sval :=
    match strip_root f with
    | Some f' => match t_root t with Some rt => sget f' rt | None => None end
    | None => sget f sp
    end.
  Fixpoint first_present (t : trace) (sp : span) (fs : list string) : option sval :=
    match fs with
    | [] => None
    | f :: r => match field_on t sp f with
                | Some v => Some v
                | None => first_present t sp r
                end
    end.
  Definition cond_value (t : trace) (sp : span) (c : cond) : option sval :=
    if is_virtual c then Some (SInt (Z.of_nat (length (t_spans t))))
    else first_present t sp (eff_fields c).

  (* ---- coercion to a Datatype ---- *)
  Definition coerce_s (dt : dtype) (v : sval) : option tv :=
    match dt with
    | DString => Some (TStr (sval_str fmtv v))
    | DInt => option_map TInt (sval_int v)
    | DFloat => option_map TFloat (sval_float parsef v)
    | DBool => Some (TBool (sval_bool fmtv v))
    | DNone | DBad => None
    end.
  Definition coerce_c (dt : dtype) (x : cscalar) : option tv :=
    match dt with
    | DString => Some (TStr (cscalar_str fmtv x))
    | DInt => option_map TInt (cscalar_int x)
    | DFloat => option_map TFloat (cscalar_float parsef x)
    | DBool => Some (TBool (str_bool (cscalar_str fmtv x)))
    | DNone | DBad => None
    end.
  Definition coerce_cv (dt : dtype) (v : cval) : option tv :=
    match dt, v with
    | DString, _ => Some (TStr (cval_str fmtv v))
    | DBool, _ => Some (TBool (cval_bool fmtv v))
    | _, CScalar x => coerce_c dt x
    | _, CList _ => None
    end.

  Definition in_dt (dt : dtype) : dtype := match dt with DNone => DString | d => d end.

  (* ---- documented meaning of one condition on the value it reads ---- *)
  (* = != > >= < <= : coerce both sides to the Datatype; no Datatype: the untyped comparison *)
  Definition doc_compare (o : op) (dt : dtype) (cv : cval) (v : sval) : bool :=
    match dt with
    | DNone => match compare_untyped v cv with
               | Some r => cmp_holds o r | None => false end
    | _ => match coerce_s dt v, coerce_cv dt cv with
           | Some a, Some b => match tv_cmp a b with
                               | Some r => cmp_holds o r | None => false end
           | _, _ => false
           end
    end.
  (* in: the value, coerced (default string), equals some coerced list item *)
  Definition doc_in (dt : dtype) (cv : cval) (v : sval) : bool :=
    match in_items cv, coerce_s (in_dt dt) v with
    | Some items, Some a => existsb (tv_eqb a) (filter_some (map (coerce_c (in_dt dt)) items))
    | _, _ => false
    end.
  (* the field is present with value v *)
  Definition doc_present (c : cond) (v : sval) : bool :=
    match c_op c with
    | OpStartsWith => String.prefix (cval_str fmtv (c_val c)) (sval_str fmtv v)
    | OpContains => str_contains (cval_str fmtv (c_val c)) (sval_str fmtv v)
    | OpNotContains => negb (str_contains (cval_str fmtv (c_val c)) (sval_str fmtv v))
    | OpMatches => match rx (cval_str fmtv (c_val c)) with
                   | Some f => f (sval_str fmtv v) | None => false end
    | OpIn => doc_in (c_dt c) (c_val c) v
    | OpNotIn => negb (doc_in (c_dt c) (c_val c) v)
    | OpEq | OpNe | OpGt | OpLt | OpGe | OpLe => doc_compare (c_op c) (c_dt c) (c_val c) v
    | OpExists => true
    | OpNotExists | OpHasRoot | OpUnknown => false
    end.
  (* None = the field is absent: only not-exists can match *)
  Definition doc_match (c : cond) (ov : option sval) : bool :=
    match ov with
    | Some v => doc_present c v
    | None => match c_op c with OpNotExists => true | _ => false end
    end.

  (* ---- configurations the documentation gives a meaning to (config validation) ---- *)
  Definition is_cmp_op (o : op) : bool :=
    match o with OpEq | OpNe | OpGt | OpLt | OpGe | OpLe => true | _ => false end.
  Definition cond_wf (c : cond) : bool :=
    negb (init_conflict c) &&
    match c_op c with
    | OpUnknown => false
    | OpEq | OpNe =>
        match c_dt c with
        | DBad => false
        | DInt => is_some (cval_int (c_val c))
        | DFloat => is_some (cval_float parsef (c_val c))
        | _ => true
        end
    | OpGt | OpLt | OpGe | OpLe =>
        match c_dt c with
        | DBad | DBool => false
        | DInt => is_some (cval_int (c_val c))
        | DFloat => is_some (cval_float parsef (c_val c))
        | _ => true
        end
    | OpIn | OpNotIn =>
        is_some (in_items (c_val c)) &&
        match c_dt c with DBool | DBad => false | _ => true end
    | OpMatches => is_some (rx (cval_str fmtv (c_val c)))
    | _ => true
    end.

  Variable ds : nat -> option outcome.
  Variable draw : nat -> Z.

  Definition rule_wf (i : nat) (r : rule) : bool :=
    match scope_of (r_scope r) with ScInvalid => false | _ => true end &&
    forallb cond_wf (r_conds r) &&
    (if r_sampler r then is_some (ds i) else r_drop r || (1 <=? r_rate r)) &&
    (0 <=? r_rate r) && (r_rate r <? 2 ^ 63).
  Fixpoint rules_wf (i : nat) (rules : list rule) : bool :=
    match rules with
    | [] => true
    | r :: rest => rule_wf i r && rules_wf (S i) rest
    end.

  (* ---- rule level, parametric in the condition matcher ---- *)
  Variable cm : cond -> option sval -> bool.

  Definition cond_on_trace (t : trace) (c : cond) : bool :=
    if is_hasroot c then Bool.eqb (has_root t) (cval_bool fmtv (c_val c))
    else existsb (fun sp => cm c (cond_value t sp c)) (t_spans t).

  Definition spec_rule_matches (t : trace) (r : rule) : bool :=
    match scope_of (r_scope r) with
    | ScTrace => forallb (cond_on_trace t) (r_conds r)
    | ScSpan =>
        is_nil (r_conds r) ||
        existsb (fun sp => forallb (fun c => cm c (cond_value t sp c)) (r_conds r)) (t_spans t)
    | ScInvalid => false
    end.

  Definition spec_prefix (r : rule) : string :=
    match scope_of (r_scope r) with ScSpan => reason_span | _ => reason_trace end.

  Definition spec_apply (i : nat) (r : rule) : outcome :=
    if r_sampler r then
      match ds i with
      | Some d => {| o_rate := o_rate d; o_keep := o_keep d;
                     o_reason := spec_prefix r ++ r_name r ++ ":" ++ o_reason d;
                     o_key := o_key d |}
      | None => default_outcome                      (* excluded by rule_wf *)
      end
    else if r_drop r then
      {| o_rate := r_rate r; o_keep := false; o_reason := spec_prefix r ++ r_name r; o_key := "" |}
    else
      {| o_rate := r_rate r; o_keep := draw i =? 0;
         o_reason := spec_prefix r ++ r_name r; o_key := "" |}.

  (* first rule, in configuration order, that matches *)
  Fixpoint spec_first (t : trace) (i : nat) (rules : list rule) : option (nat * rule) :=
    match rules with
    | [] => None
    | r :: rest => if spec_rule_matches t r then Some (i, r) else spec_first t (S i) rest
    end.

  Definition spec_outcome (t : trace) (rules : list rule) : outcome :=
    match spec_first t O rules with
    | Some (i, r) => spec_apply i r
    | None => default_outcome
    end.
End Spec.

(* the specification proper uses the documented matcher; None = configuration outside the
   documented domain *)
Definition spec_run fmtv parsef rx ds draw (cm : cond -> option sval -> bool)
           (t : trace) (rules : list rule) : option outcome :=
  if rules_wf fmtv parsef rx ds O rules
  then Some (spec_outcome fmtv ds draw cm t rules) else None.
