(* Executable model of sample/trace_key.go (newTraceKey / traceKey.build / distinctValue) and of the
   rate floor + random keep shared by the five dynsampler-backed samplers (sample/dynamic.go,
   dynamic_ema.go, ema_throughput.go, windowed_throughput.go, totalthroughput.go).

   Strings are lists of Unicode code points (Go strings restricted to valid UTF-8; byte order of
   valid UTF-8 strings = code point order, so sort.Strings is [ssort]).

   Go                                                     model
   --                                                     -----
   newTraceKey: sort.Strings(fields); split "root."       prepare
   span.Data.Exists(f) / Get(f)                           sp_get f span  (a span is an association list)
   appendValueAsString (type switch, used by              render_add ; wyhash(buf) is an injective oracle,
     AddAsString and for root fields)
                                                          so the per-field map is a duplicate-free list
   "totalUniqueCount >= maxKeyLength -> break outer"      scan / collect  (count first, store only while
   "totalUniqueCount++ ; >= max -> not stored"                             the count stays below the cap)
   Values(i): sort.Strings of the map values              ssort
   prevStr de-dup, WriteRune('•'), WriteRune(',')         dedup_prev / emit_field
   root fields: appendValueAsString(v) + ','              root_part (render_root = render_add)
   strconv.FormatInt(len(spans))                          len_part
   rate = uint(dyn.GetSampleRateMulti(..)); <1 -> 1       rate_floor   (dynsampler result: oracle)
   rand.Intn(int(rate)) == 0                              keep_of draw (draw: oracle in [0, rate))

   Constants and flags come from Gen/GenC11.v.  No proofs in this file. *)
From Refinery Require Export Lib.Base Lib.Strs_samp.
From Refinery Require Gen.GenC11.

Definition BUL : N := 8226%N.     (* '•' *)
Definition COMMA : N := 44%N.     (* ',' *)
Definition MAXK : N := GenC11.max_key_length.
Definition ROOTP : str := u GenC11.root_prefix.

(* ---------- values, spans, traces ---------- *)
Inductive value :=
| VStr (s : str)
| VInt (z : Z)                      (* int, int64 *)
| VBool (b : bool)
| VNil
| VFloat (neg : bool) (mant : N) (exp : Z) (ftext : str)
      (* float64 = (-1)^neg * mant * 2^exp exactly (finite values only);
         ftext = strconv.AppendFloat(v, 'f', -1, 64), supplied by the harness (oracle) *)
| VOracle (r : str).                (* any other type: fmt %v rendering supplied by the harness *)

Definition s_true : str := [116; 114; 117; 101]%N.
Definition s_false : str := [102; 97; 108; 115; 101]%N.
Definition s_nil : str := [60; 110; 105; 108; 62]%N.

(* v == math.Trunc(v): the exact integer value when the float is whole *)
Definition float_whole (mant : N) (exp : Z) : option N :=
  if 0 <=? exp then Some (mant * 2 ^ Z.to_N exp)%N
  else let d := (2 ^ Z.to_N (- exp))%N in
       if (mant mod d =? 0)%N then Some (mant / d)%N else None.

(* appendValueAsString, float64 arm: whole and |v| < 2^63 -> the int64 text, else the 'f' text *)
Definition render_float (neg : bool) (mant : N) (exp : Z) (ftext : str) : str :=
  match float_whole mant exp with
  | Some n => if (n <? 9223372036854775808)%N
              then dec_Z (if neg then - Z.of_N n else Z.of_N n)
              else ftext
  | None => ftext
  end.

(* appendValueAsString: one rendering for per-span key fields and for root.-prefixed fields *)
Definition render_add (v : value) : str :=
  match v with
  | VStr s => s | VInt z => dec_Z z | VBool b => if b then s_true else s_false
  | VNil => s_nil | VFloat g m e t => render_float g m e t | VOracle r => r
  end.
Definition render_root (v : value) : str := render_add v.

Definition span := list (str * value).
Fixpoint sp_get (f : str) (s : span) : option value :=
  match s with [] => None | (k, v) :: r => if str_eqb f k then Some v else sp_get f r end.

Record trace := { t_spans : list span; t_root : option span }.

(* rendered values of field f over the spans, in span order *)
Definition vals (f : str) (t : trace) : list str :=
  flat_map (fun s => match sp_get f s with Some v => [render_add v] | None => [] end) (t_spans t).

(* ---------- newTraceKey ---------- *)
Definition prepare (fields : list str) : list str * list str :=
  let s := ssort fields in
  (filter (fun f => negb (has_prefix ROOTP f)) s,
   map (fun f => skipn (length ROOTP) f) (filter (has_prefix ROOTP) s)).

(* ---------- distinct value collection with the cap ---------- *)
(* one field: xs = values met in span order; seen = stored strings; cnt = totalUniqueCount.
   third component: the outer loop was left ("break outer") *)
Fixpoint scan (xs : list str) (seen : list str) (cnt : N) : list str * N * bool :=
  match xs with
  | [] => (seen, cnt, false)
  | x :: r =>
      if (MAXK <=? cnt)%N then (seen, cnt, true)
      else if mem_str x seen then scan r seen cnt
      else if (MAXK <=? cnt + 1)%N then scan r seen (cnt + 1)%N     (* counted, not stored *)
      else scan r (x :: seen) (cnt + 1)%N
  end.

Fixpoint collect (fs : list str) (t : trace) (cnt : N) : list (list str) :=
  match fs with
  | [] => []
  | f :: r =>
      match scan (vals f t) [] cnt with
      | (seen, cnt', true) => seen :: map (fun _ => []) r
      | (seen, cnt', false) => seen :: collect r t cnt'
      end
  end.

(* the same without a cap *)
Fixpoint scan_u (xs : list str) (seen : list str) : list str :=
  match xs with
  | [] => seen
  | x :: r => if mem_str x seen then scan_u r seen else scan_u r (x :: seen)
  end.
Definition ndistinct (xs : list str) : nat := length (scan_u xs []).
Definition total_distinct (fs : list str) (t : trace) : N :=
  fold_right (fun f acc => (N.of_nat (ndistinct (vals f t)) + acc)%N) 0%N fs.

(* ---------- writing the key ---------- *)
(* prev = None: "always write" (j == 0); Some p: write unless equal to p *)
Fixpoint dedup_prev (prev : option str) (l : list str) : list str :=
  match l with
  | [] => []
  | x :: r =>
      (if match prev with Some p => str_eqb x p | None => false end then [] else [x])
      ++ dedup_prev (Some x) r
  end.

(* the pinned tree started with prevStr = "" (an empty-string value was swallowed: build_gen (Some []));
   the source as it is always writes the first value.  Which of the two the code does is decided by
   the correspondence (monitor code 16), not by a fact about the statement text. *)
Definition init_prev : option str := None.

Definition enc (l : list str) : str := flat_map (fun v => v ++ [BUL]) l.

Definition emit_field (ip : option str) (seen : list str) : str * N :=
  match ssort seen with
  | [] => ([], 0%N)
  | w => let o := dedup_prev ip w in (enc o ++ [COMMA], N.of_nat (length o))
  end.

Definition root_part (rfs : list str) (t : trace) : str * N :=
  match t_root t with
  | None => ([], 0%N)
  | Some rs =>
      fold_right (fun f acc =>
                    match sp_get f rs with
                    | Some v => (render_root v ++ [COMMA] ++ fst acc, (1 + snd acc)%N)
                    | None => acc
                    end) ([], 0%N) rfs
  end.

Definition len_part (uselen : bool) (t : trace) : str * N :=
  if uselen then (dec_N (N.of_nat (length (t_spans t))), 1%N) else ([], 0%N).

Definition build_gen (ip : option str) (fields : list str) (uselen : bool) (t : trace) : str * N :=
  let '(nf, rf) := prepare fields in
  let blocks := map (emit_field ip) (collect nf t 0%N) in
  let rp := root_part rf t in
  let lp := len_part uselen t in
  (concat (map fst blocks) ++ fst rp ++ fst lp,
   (fold_right N.add 0%N (map snd blocks) + snd rp + snd lp)%N).

Definition build := build_gen init_prev.

(* ---------- sampler: rate floor and random keep ---------- *)
(* d = result of GetSampleRateMulti (a Go int); uint(d) = d mod 2^64 *)
Definition rate_floor (d : Z) : Z :=
  let r := d mod 18446744073709551616 in if r <? 1 then 1 else r.
Definition keep_of (draw : Z) : bool := draw =? 0.

(* ---------- specification-side views ---------- *)
(* what the key may depend on *)
Definition root_view (rfs : list str) (t : trace) : option (list (option str)) :=
  match t_root t with
  | None => None
  | Some rs => Some (map (fun f => option_map render_root (sp_get f rs)) rfs)
  end.

Definition delim_free (s : str) : bool := forallb (fun c => negb (N.eqb c BUL) && negb (N.eqb c COMMA)) s.
