(* Executable model of generics/setttl.go (SetWithTTL) and generics/mapttl.go (MapWithTTL).
   Time is Z nanoseconds on the fake clock.  A set is a map whose values are ignored.

   Go                                   model
   --                                   -----
   Add(e) / Set(k,v)                    Put k v      Items[k] = (now+TTL, v)
   Remove(e) / Delete(k)                Del k
   Contains(e) / Get(k)                 Get k        ok  <->  in Items and not (exp < now)
   Members() / Keys()+SortedKeys()      Keys         cleanup (delete exp < now); keys
   Values()/SortedValues()              Vals         cleanup; values (by key order in the checker)
   Length()                             Len          cleanup; count
   clock.Advance(d)                     Advance d
*)
From Refinery Require Import Lib.Base.

Inductive top :=
| Put (k : N) (v : N) | Del (k : N) | Get (k : N) | Keys | Vals | Len | Advance (d : Z).

Inductive tout :=
| ONone | OGet (r : option N) | OKeys (l : list N) | OVals (l : list (N * N)) | OLen (n : N).

Record tstate := { now : Z; items : amap (Z * N) }.   (* key -> (expiration, value) *)

Definition tinit (t0 : Z) : tstate := {| now := t0; items := [] |}.

(* exp.Before(now) *)
Definition expired (nw : Z) (e : Z) : bool := e <? nw.
Definition keepf (nw : Z) (kv : N * (Z * N)) : bool := negb (expired nw (fst (snd kv))).
Definition cleanup (nw : Z) (m : amap (Z * N)) : amap (Z * N) := filter (keepf nw) m.

Definition tstep (ttl : Z) (s : tstate) (o : top) : tstate * tout :=
  match o with
  | Put k v => ({| now := now s; items := aset k (now s + ttl, v) (items s) |}, ONone)
  | Del k => ({| now := now s; items := aremove k (items s) |}, ONone)
  | Get k => (s, OGet (match alookup k (items s) with
                       | Some (e, v) => if expired (now s) e then None else Some v
                       | None => None end))
  | Keys => let m := cleanup (now s) (items s) in
            ({| now := now s; items := m |}, OKeys (akeys m))
  | Vals => let m := cleanup (now s) (items s) in
            ({| now := now s; items := m |}, OVals (map (fun kv => (fst kv, snd (snd kv))) m))
  | Len => let m := cleanup (now s) (items s) in
           ({| now := now s; items := m |}, OLen (N.of_nat (length m)))
  | Advance d => ({| now := now s + d; items := items s |}, ONone)
  end.

Fixpoint trun (ttl : Z) (s : tstate) (ops : list top) : list tout :=
  match ops with
  | [] => []
  | o :: r => let '(s', out) := tstep ttl s o in out :: trun ttl s' r
  end.

(* ---------- the specification: one liveness predicate, every query derived from it ---------- *)
(* last : key -> (time of most recent add, value); entries leave only by Del. *)
Record tspec := { snow : Z; last : amap (Z * N) }.
Definition sinit (t0 : Z) : tspec := {| snow := t0; last := [] |}.

(* present for its TTL after its most recent add (inclusive of the expiry instant) *)
Definition live (ttl nw : Z) (kv : N * (Z * N)) : bool := nw <=? fst (snd kv) + ttl.
Definition live_entries (ttl : Z) (s : tspec) : amap (Z * N) := filter (live ttl (snow s)) (last s).

Definition sstep (ttl : Z) (s : tspec) (o : top) : tspec * tout :=
  match o with
  | Put k v => ({| snow := snow s; last := aset k (snow s, v) (last s) |}, ONone)
  | Del k => ({| snow := snow s; last := aremove k (last s) |}, ONone)
  | Get k => (s, OGet (option_map (fun av => snd av) (alookup k (live_entries ttl s))))
  | Keys => (s, OKeys (akeys (live_entries ttl s)))
  | Vals => (s, OVals (map (fun kv => (fst kv, snd (snd kv))) (live_entries ttl s)))
  | Len => (s, OLen (N.of_nat (length (live_entries ttl s))))
  | Advance d => ({| snow := snow s + d; last := last s |}, ONone)
  end.

Fixpoint srun (ttl : Z) (s : tspec) (ops : list top) : list tout :=
  match ops with
  | [] => []
  | o :: r => let '(s', out) := sstep ttl s o in out :: srun ttl s' r
  end.

(* histories the property quantifies over: the clock never goes backwards *)
Definition op_ok (o : top) : bool := match o with Advance d => 0 <=? d | _ => true end.
Definition ops_ok (ops : list top) : bool := forallb op_ok ops.
