(* Executable model of metrics/multi_metrics.go (MultiMetrics: the value store behind Get) and the
   specification of C33.  Metric names are N.  The four sync.Maps of the code (counters, gauges,
   updowns, stores) are one map keyed by (slot, name): key slot name = name * 4 + slot.
   Values are Z: counters are uint64 (additions wrap mod 2^64, written explicitly), updowns int64
   (unbounded here), gauges and stores hold float64 values that the harness keeps integral and
   below 2^53 so that float64 <-> integer conversion is exact.

   Go                                     model
   --                                     -----
   Register(Metadata{Name, Type})         MReg name kind   metricTypes[name] = kind; after the fix the value cell is created
                                                           only if absent (LoadOrStore); on the pinned tree it is replaced by a
                                                           fresh zero (reset = true)
   Increment / Count(n)                   MInc / MCount n  counters[name] += 1 / uint64(n)   (cell created on first use)
   Gauge(v) / Store(v)                    MGaugeSet / MStore
   Up / Down                              MUp / MDown
   Histogram                              MHist            not stored
   Get(name)                              MGet name        stores first; then by registered type; unregistered: counters, gauges, updowns *)
From Refinery Require Import Lib.Base.

Inductive mkind := KCounter | KGauge | KUpDown | KHist.
Inductive mop :=
| MReg (name : N) (k : mkind) | MInc (name : N) | MCount (name : N) (n : Z)
| MGaugeSet (name : N) (v : Z) | MUp (name : N) | MDown (name : N) | MStore (name : N) (v : Z)
| MHist (name : N) | MGet (name : N).

Definition s_counter : N := 0%N.
Definition s_gauge : N := 1%N.
Definition s_updown : N := 2%N.
Definition s_store : N := 3%N.
Definition key (slot name : N) : N := (name * 4 + slot)%N.
Definition slot_of (k : mkind) : option N :=
  match k with KCounter => Some s_counter | KGauge => Some s_gauge | KUpDown => Some s_updown | KHist => None end.

Definition w64 (v : Z) : Z := v mod 18446744073709551616.

Record mstate := { cells : amap Z; types : amap mkind }.
Definition minit : mstate := {| cells := []; types := [] |}.

Definition getc (s : mstate) (slot name : N) : option Z := alookup (key slot name) (cells s).
Definition cur0 (v : option Z) : Z := match v with Some x => x | None => 0 end.

(* the effect of one operation on the cell (slot, name), as a function of the cell's old content *)
Definition eff (reset : bool) (slot name : N) (o : mop) (v : option Z) : option Z :=
  match o with
  | MReg n k => if N.eqb n name && option_eqb N.eqb (slot_of k) (Some slot)
                then (if reset then Some 0 else match v with Some x => Some x | None => Some 0 end) else v
  | MInc n => if N.eqb n name && N.eqb slot s_counter then Some (w64 (cur0 v + 1)) else v
  | MCount n c => if N.eqb n name && N.eqb slot s_counter then Some (w64 (cur0 v + w64 c)) else v
  | MGaugeSet n x => if N.eqb n name && N.eqb slot s_gauge then Some x else v
  | MUp n => if N.eqb n name && N.eqb slot s_updown then Some (cur0 v + 1) else v
  | MDown n => if N.eqb n name && N.eqb slot s_updown then Some (cur0 v - 1) else v
  | MStore n x => if N.eqb n name && N.eqb slot s_store then Some x else v
  | MHist _ | MGet _ => v
  end.

(* which cell an operation writes *)
Definition target (o : mop) : option (N * N) :=
  match o with
  | MReg n k => match slot_of k with Some sl => Some (sl, n) | None => None end
  | MInc n | MCount n _ => Some (s_counter, n)
  | MGaugeSet n _ => Some (s_gauge, n)
  | MUp n | MDown n => Some (s_updown, n)
  | MStore n _ => Some (s_store, n)
  | MHist _ | MGet _ => None
  end.

Definition mget (s : mstate) (name : N) : option Z :=
  match getc s s_store name with
  | Some v => Some v
  | None =>
      match alookup name (types s) with
      | None => match getc s s_counter name with
                | Some v => Some v
                | None => match getc s s_gauge name with
                          | Some v => Some v
                          | None => getc s s_updown name
                          end
                end
      | Some KCounter => getc s s_counter name
      | Some KGauge => getc s s_gauge name
      | Some KUpDown => getc s s_updown name
      | Some KHist => None
      end
  end.

Definition mstep (reset : bool) (s : mstate) (o : mop) : mstate * option (option Z) :=
  match o with
  | MGet n => (s, Some (mget s n))
  | _ =>
      let ty := match o with MReg n k => aset n k (types s) | _ => types s end in
      let cs := match target o with
                | Some (sl, n) => match eff reset sl n o (getc s sl n) with
                                  | Some v => aset (key sl n) v (cells s)
                                  | None => cells s
                                  end
                | None => cells s
                end in
      ({| cells := cs; types := ty |}, None)
  end.

Fixpoint mrun (reset : bool) (s : mstate) (ops : list mop) : mstate * list (option Z) :=
  match ops with
  | [] => (s, [])
  | o :: r => let '(s1, out) := mstep reset s o in
              let '(s2, outs) := mrun reset s1 r in
              (s2, match out with Some x => x :: outs | None => outs end)
  end.

(* ---------------- specification: what was recorded ---------------- *)
(* sum of the increments of counter name; last gauge / store value; ups minus downs *)
Fixpoint csum (name : N) (ops : list mop) : Z :=
  match ops with
  | [] => 0
  | MInc n :: r => (if N.eqb n name then 1 else 0) + csum name r
  | MCount n c :: r => (if N.eqb n name then c else 0) + csum name r
  | _ :: r => csum name r
  end.
Fixpoint udsum (name : N) (ops : list mop) : Z :=
  match ops with
  | [] => 0
  | MUp n :: r => (if N.eqb n name then 1 else 0) + udsum name r
  | MDown n :: r => (if N.eqb n name then -1 else 0) + udsum name r
  | _ :: r => udsum name r
  end.
Fixpoint lastset (slot name : N) (ops : list mop) (acc : option Z) : option Z :=
  match ops with
  | [] => acc
  | MGaugeSet n x :: r => lastset slot name r (if N.eqb n name && N.eqb slot s_gauge then Some x else acc)
  | MStore n x :: r => lastset slot name r (if N.eqb n name && N.eqb slot s_store then Some x else acc)
  | _ :: r => lastset slot name r acc
  end.

(* name is used as a metric of kind k only: every registration of it says k, every value operation
   on it is one of kind k, it is never the name of a Store()d constant; counts are non-negative *)
Definition uses_as (k : mkind) (name : N) (o : mop) : bool :=
  match o with
  | MReg n k' => negb (N.eqb n name) || match k, k' with KCounter, KCounter | KGauge, KGauge | KUpDown, KUpDown => true | _, _ => false end
  | MInc n => negb (N.eqb n name) || match k with KCounter => true | _ => false end
  | MCount n c => negb (N.eqb n name) || (match k with KCounter => true | _ => false end && (0 <=? c))
  | MGaugeSet n _ => negb (N.eqb n name) || match k with KGauge => true | _ => false end
  | MUp n | MDown n => negb (N.eqb n name) || match k with KUpDown => true | _ => false end
  | MStore n _ => negb (N.eqb n name)
  | MHist _ | MGet _ => true
  end.
(* the metric exists: registered or used at least once *)
Definition touches (name : N) (o : mop) : bool :=
  match target o with Some (sl, n) => N.eqb n name && negb (N.eqb sl s_store) | None => false end.
