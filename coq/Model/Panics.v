(* C28 (partial): models of the run-time-panic sites that configuration or request data can reach, and the
   disposition table for the syntactic inventory regenerated into Gen/GenC28.v.

   A modelled function returns [option]: [None] = the Go code panics (index out of range, integer
   division by zero).  [guard] parameters are the flags regenerated from the source (is the fix there?).
   No proofs in this file. *)
From Refinery Require Import Lib.Base.

(* ---------------- config.GetKeyFields ---------------- *)
Definition first_is (c : ascii) (s : string) : option bool :=     (* field[0] == c *)
  match s with EmptyString => None | String a _ => Some (Ascii.eqb a c) end.
Definition head_of (s : string) : option ascii := match s with EmptyString => None | String a _ => Some a end.
Fixpoint sdrop (n : nat) (s : string) : string :=
  match n, s with O, _ => s | S k, String _ r => sdrop k r | S _, EmptyString => EmptyString end.

(* slices.Compact: drop consecutive duplicates *)
Fixpoint compact (l : list string) : list string :=
  match l with
  | a :: (b :: _) as r => if String.eqb a b then compact r else a :: compact r
  | _ => l
  end.

Section KeyFields.
  Variables root_prefix computed_prefix : string.    (* "root." , "?." *)
  Variable guard : bool.                             (* the loop skips empty names *)

  Fixpoint kf_loop (fields root nonroot : list string) : option (list string * list string) :=
    match fields with
    | [] => Some (root, nonroot)
    | f :: r =>
        if guard && String.eqb f EmptyString then kf_loop r root nonroot else
        match head_of f, head_of root_prefix, head_of computed_prefix with
        | None, _, _ => None                                        (* field[0] on "" *)
        | Some a, Some rc, Some cc =>
            if Ascii.eqb a rc && String.prefix root_prefix f then
              kf_loop r (root ++ [sdrop (String.length root_prefix) f]) nonroot
            else if Ascii.eqb a cc && String.prefix computed_prefix f then kf_loop r root nonroot
            else kf_loop r root (nonroot ++ [f])
        | Some _, _, _ => None                                      (* prefixes are non-empty constants *)
        end
    end.

  (* (allFields, nonRootFields); (nil, nil) is ([], []) *)
  Definition key_fields (fields : list string) : option (list string * list string) :=
    match fields with
    | [] => Some ([], [])
    | _ => match kf_loop fields [] [] with
           | None => None
           | Some (root, nonroot) =>
               match root, nonroot with
               | [], [] => Some ([], [])
               | [], _ => Some (nonroot, nonroot)
               | _, _ => Some (compact (root ++ nonroot), nonroot)
               end
           end
    end.
End KeyFields.

(* ---------------- sample.DeterministicSampler.Start / GetSampleRate ---------------- *)
Definition two32 : Z := 4294967296.
Definition two64 : Z := 18446744073709551616.
Definition max_u32 : Z := 4294967295.

(* d.upperBound after Start; rate is the Go int (64-bit two's complement) *)
Definition det_upper_bound (guard : bool) (rate : Z) : option Z :=
  if guard then
    if max_u32 <? rate mod two64 then Some 0              (* uint64(d.sampleRate) > math.MaxUint32 *)
    else if 1 <? rate then Some (max_u32 / rate)
    else Some max_u32
  else
    let r32 := rate mod two32 in                            (* uint32(d.sampleRate) *)
    if r32 =? 0 then None else Some (max_u32 / r32).        (* integer divide by zero *)

(* GetSampleRate: (rate reported, keep) for a trace whose sha1 prefix is v *)
Definition det_decide (guard : bool) (rate : Z) (v : Z) : option (Z * bool) :=
  match det_upper_bound guard rate with
  | None => None
  | Some ub => if rate <=? 1 then Some (1, true) else Some (rate mod two64, v <=? ub)
  end.

(* ---------------- the inventory ---------------- *)
Definition site := (string * string * string)%type.     (* function, kind, normalised expression *)
Definition site_eqb (a b : site) : bool :=
  let '(f, k, e) := a in let '(f', k', e') := b in String.eqb f f' && String.eqb k k' && String.eqb e e'.

Inductive disp :=
| DProved (lemma : string)       (* safe for all inputs; the named lemma of Proofs/Panics.v is the argument *)
| DFixed (lemma : string)        (* was reachable from accepted input on the pinned tree; fixed; proved safe with the guard flag *)
| DCallerGuard (why : string)    (* divisor / index established non-zero / in range by the caller or a clamp on the same line *)
| DConstant (why : string)       (* operands are compile-time constants *)
| DFloat                         (* floating-point division: no panic *)
| DStartup (why : string)        (* deliberate exit at startup / CLI handling, not reachable from a running, validated process *)
| DMetadata (why : string)       (* panic on an unknown keyword in refinery's OWN embedded metadata, not on user input *)
| DPool (why : string)           (* type assertion on a value taken from a sync.Pool that only ever holds that type *)
| DIntended.                     (* the /panic debug endpoint, under panicCatcher *)

(* ---------------- known findings: EMAThroughputSampler (left in the code, see known_findings/C28.json) ---------------- *)
(* Durations in nanoseconds. validateDatatype "duration" after the fix accepts exactly the non-negative ones;
   before it accepted every parsable duration. *)
Definition duration_accepted (rejects_negative : bool) (d : Z) : bool := if rejects_negative then 0 <=? d else true.

(* time.NewTicker(d) panics for d <= 0; dynsampler-go replaces 0 by its default first *)
Definition new_ticker (d default : Z) : option unit :=
  let i := if d =? 0 then default else d in if i <=? 0 then None else Some tt.

(* dynsampler-go EMAThroughput.Start returns an error (ignored by createDynForEMAThroughputSampler) for a non-zero
   AdjustmentInterval below 1ms and leaves its maps nil; the first GetSampleRateMulti then writes to a nil map *)
Definition ema_throughput_first_decision (interval : Z) : option unit :=
  if interval =? 0 then Some tt else if interval <? 1000000 then None else Some tt.

(* The five dynsampler-based samplers: rate = uint(r) [r = what dynsampler returns, an int; for an unseen key that is
   the configured SampleRate / GoalSampleRate / InitialSampleRate]; if rate < 1 then 1; rand.Intn(int(rate)) panics
   for an argument <= 0.  [clamp] = the code clamps r to >= 1 BEFORE the unsigned conversion. *)
Definition sampler_draw (clamp : bool) (r : Z) : option unit :=
  let r1 := if clamp then Z.max r 1 else r in
  let u := r1 mod two64 in                            (* uint(...) *)
  let u1 := if u <? 1 then 1 else u in
  let n := if 9223372036854775808 <=? u1 then u1 - two64 else u1 in   (* int(rate) *)
  if n <=? 0 then None else Some tt.

(* DirectTransmission: Start clamps batchTimeout to >= 4ns [clamp]; dispatchStaleBatches then calls
   d.Clock.NewTicker(d.batchTimeout / 4) (Go integer division truncates towards zero) *)
Definition batch_ticker (clamp : bool) (batch_timeout : Z) : option unit :=
  let b := if clamp then Z.max batch_timeout 4 else batch_timeout in
  let i := Z.quot b 4 in if i <=? 0 then None else Some tt.

(* what validation accepts for EMAThroughputSampler.AdjustmentInterval (ns): with the metadata bound
   (minOrZero 1ms, compared without truncating to whole milliseconds) zero or >= 1ms; before, any non-negative value *)
Definition ema_interval_accepted (bounded : bool) (d : Z) : bool :=
  if bounded then (d =? 0) || (1000000 <=? d) else 0 <=? d.

(* RulesBasedSampler.GetSampleRate, rule without a downstream sampler:
   keep = !rule.Drop && GUARD && rand.Intn(rule.SampleRate) == 0 ; rand.Intn(n) panics for n <= 0.
   [strict]: the guard is `rule.SampleRate > 0` (the source); otherwise the weaker `!= 0`. *)
Definition rules_draw (strict : bool) (drop : bool) (rate : Z) : option unit :=
  if drop then Some tt
  else if (if strict then 0 <? rate else negb (rate =? 0)) then (if rate <=? 0 then None else Some tt)
  else Some tt.

(* NewCollectorWorker: make(chan *types.Span, (size + workers - 1) / workers) with workers = max(WorkerCount, 1);
   makechan panics for a negative size. [validated]: the metadata demands size >= 0 *)
Definition queue_size_accepted (validated : bool) (size : Z) : bool := if validated then 0 <=? size else true.
Definition worker_queue (size workers : Z) : option Z :=
  let per := Z.quot (size + workers - 1) workers in if per <? 0 then None else Some per.

(* sample/rules.go extractValueFromSpan: which *Span the local variable holds. Per field: span = original; a
   `root.`-prefixed field uses trace.RootSpan if there is one, otherwise the field is skipped. [skip_first]: the
   source tests `trace.RootSpan != nil` BEFORE assigning (else: continue); the flattened variant assigns
   span = trace.RootSpan (nil for a rootless trace) and then continues. After the loop the nested-field fallback
   (CheckNestedFields) reads span.Data. A field is (root-prefixed?, present in the span it is looked up in?). *)
Inductive spanvar := SOrig | SRoot | SNil.
Fixpoint xv_loop (skip_first has_root : bool) (fields : list (bool * bool)) (cur : spanvar) : spanvar * bool :=
  match fields with
  | [] => (cur, false)
  | (rp, present) :: r =>
      if rp then
        if has_root then (if present then (SRoot, true) else xv_loop skip_first has_root r SRoot)
        else xv_loop skip_first has_root r (if skip_first then SOrig else SNil)
      else if present then (SOrig, true) else xv_loop skip_first has_root r SOrig
  end.
(* Some found / None = nil dereference *)
Definition extract_value (skip_first has_root nested : bool) (fields : list (bool * bool)) : option bool :=
  let '(cur, found) := xv_loop skip_first has_root fields SOrig in
  if found then Some true
  else if nested then match cur with SNil => None | _ => Some false end
  else Some false.

(* route.getEventTime on an integer-looking header of length len: the `len == 10` branch does not slice; the other
   branch slices [:10] and [10:]. [guarded]: that branch is `else if len > 10` (the source); otherwise a plain `else`. *)
Definition event_time_slice (guarded : bool) (len : Z) : option unit :=
  if len =? 10 then Some tt
  else if (if guarded then 10 <? len else true) then (if len <? 10 then None else Some tt)
  else Some tt.
