(* Interleaving model of sample/sample.go dynsamplerMetricsRecorder.RecordMetrics for one counter of
   the sampler's internal metrics (a cumulative value that only grows):

     d.mu.Lock()
     for name, val := range sampler.GetMetrics(prefix) {      <- snapshot, taken while holding the mutex
         delta := val - lastMetrics[name].val ; d.met.Count(name, delta) ; lastMetrics[name].val = val }
     d.mu.Unlock()

   Events: RStep i = goroutine i takes its next atomic step; RGrow d = the sampler's counter grows.
   Fixed code (buggy = false): idle -> lock -> snapshot -> apply-and-unlock.
   buggy = true: the snapshot is taken BEFORE the mutex is acquired: idle -> snapshot -> lock -> apply-and-unlock.
   [active] is the mutex: Some (i, None) = i holds it, no snapshot yet; Some (i, Some v) = i holds it with snapshot v.
   [pend] (buggy only) = snapshots held by goroutines that have not got the mutex yet.
   [store] is the counter in the metrics store (Z; the uint64 cell wraps a negative delta to the same
   decrease), [latest] a ghost: the most recent snapshot taken, [deltas] the log of Count() arguments. *)
From Refinery Require Import Lib.Base.

Inductive revt := RStep (i : N) | RGrow (d : Z).
Record rconf := { src : Z; last : Z; store : Z; latest : Z;
                  active : option (N * option Z); pend : amap Z; deltas : list Z }.

Definition rinit (s0 : Z) : rconf :=   (* RegisterMetrics: lastMetrics := current snapshot; store untouched *)
  {| src := s0; last := s0; store := 0; latest := s0; active := None; pend := []; deltas := [] |}.

Definition apply_release (c : rconf) (v : Z) : rconf :=
  {| src := src c; last := v; store := store c + (v - last c); latest := latest c;
     active := None; pend := pend c; deltas := (v - last c) :: deltas c |}.

Definition rstep (buggy : bool) (c : rconf) (e : revt) : rconf :=
  match e with
  | RGrow d => {| src := src c + Z.max 0 d; last := last c; store := store c; latest := latest c;
                  active := active c; pend := pend c; deltas := deltas c |}
  | RStep i =>
      match active c with
      | Some (j, Some v) => if N.eqb i j then apply_release c v else
          if buggy then match alookup i (pend c) with
                        | Some _ => c                                   (* waits for the mutex *)
                        | None => {| src := src c; last := last c; store := store c; latest := src c;
                                     active := active c; pend := aset i (src c) (pend c); deltas := deltas c |}
                        end
          else c                                                        (* waits for the mutex *)
      | Some (j, None) => if N.eqb i j
          then {| src := src c; last := last c; store := store c; latest := src c;
                  active := Some (j, Some (src c)); pend := pend c; deltas := deltas c |}
          else c
      | None =>
          if buggy then
            match alookup i (pend c) with
            | Some v => {| src := src c; last := last c; store := store c; latest := latest c;
                           active := Some (i, Some v); pend := aremove i (pend c); deltas := deltas c |}
            | None => {| src := src c; last := last c; store := store c; latest := src c;
                         active := None; pend := aset i (src c) (pend c); deltas := deltas c |}
            end
          else {| src := src c; last := last c; store := store c; latest := latest c;
                  active := Some (i, None); pend := pend c; deltas := deltas c |}
      end
  end.

Definition rrun (buggy : bool) (c : rconf) (evs : list revt) : rconf := fold_left (rstep buggy) evs c.
Definition quiescent (c : rconf) : bool :=
  match active c, pend c with None, [] => true | _, _ => false end.
