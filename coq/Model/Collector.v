(* Executable model of one collector worker (collect/collector_worker.go, collect/collect.go,
   collect/cache/cache.go) and of the product of workers, plus the abstract machine it refines.
   No proofs here (Proofs/Collector*.v).

   Go                                                   model
   --                                                   -----
   CollectorWorker.cache (DefaultInMemCache: map + pq)  w_buf : amap trace   (t_sendby mirrors the pq
                                                        priority: every SendBy write is followed by
                                                        cache.Set — checked by Gen.ps_sendby_only_lowered_and_requeued)
   CollectorWorker.sampleCache (kept LRU + dropped      w_dec : amap bool    IDEAL decision memory; the
     cuckoo filter + recent-drop set)                     real cache forgetting a decision is the explicit
                                                          op [OForget t] (the property's retention limit)
   processSpan(sp) at Clock.Now() = now                 OSpan now s
   sendExpiredTracesInCache(now)                        OTick now choice     choice = the traces the priority
                                                          queue popped, in order (kpq is an ideal queue: Pop
                                                          returns SOME minimum; ties are its choice)
   sendTracesEarly(bytes)                               OEject bytes choice  choice = the traces visited by
                                                          the loop, in order (sort.Slice is an ideal unstable
                                                          sort: ties in impact are its choice)
   reload branch of collect()                           OReload c
   makeDecision + send + sendTraces                     decide_one
   dealWithSentTrace                                    the [Some k] arm of step_span
   sampler.GetSampleRate(trace)                         sampler : cfg version -> spans in arrival order -> keep?
   Config.GetIsDryRun()                                 dry   (constant over a history)

   A step whose oracle [choice] is not something the code could have done returns None. *)
From Refinery Require Import Lib.Base Gen.GenC01.

Record span := { s_id : N; s_tid : N; s_root : bool; s_cls : N; s_size : Z; s_age : Z }.
Record cfg := { c_ver : N; c_tt : Z; c_sd : Z; c_sl : Z; c_me : Z }.
(* t_spans: newest first *)
Record trace := { t_spans : list span; t_sendby : Z }.
Record wstate := { w_buf : amap trace; w_dec : amap bool; w_cfg : cfg }.

(* forwarded span: (trace, span id, send reason) *)
Definition ev := (N * N * N)%type.
Definition R_root : N := 1%N.
Definition R_expired : N := 2%N.
Definition R_limit : N := 3%N.
Definition R_eject : N := 4%N.
Definition R_late : N := 5%N.

Definition winit (c : cfg) : wstate := {| w_buf := []; w_dec := []; w_cfg := c |}.

(* ---------- deadlines (processSpan) ---------- *)
Definition eff_tt (c : cfg) : Z := if c_tt c =? 0 then trace_timeout_fallback else c_tt c.
Definition eff_sd (c : cfg) : Z := if c_sd c =? 0 then send_delay_fallback else c_sd c.
Definition count (tr : trace) : Z := Z.of_nat (length (t_spans tr)).
(* tcfg.SpanLimit > 0 && uint(trace.DescendantCount()) > tcfg.SpanLimit *)
Definition over_limit (c : cfg) (n : Z) : bool := (0 <? c_sl c) && (c_sl c <? n).
Definition has_root (tr : trace) : bool := existsb s_root (t_spans tr).

Definition add_span (c : cfg) (now : Z) (tr : trace) (s : span) : trace :=
  let spans := s :: t_spans tr in
  let lim := over_limit c (Z.of_nat (length spans)) in
  let upd := now + (if lim then 0 else eff_sd c) in
  {| t_spans := spans;
     t_sendby := if (s_root s || lim) && (upd <? t_sendby tr) then upd else t_sendby tr |}.

Definition new_trace (c : cfg) (now : Z) : trace := {| t_spans := []; t_sendby := now + eff_tt c |}.

Section Worker.
  Variable sampler : N -> list span -> bool.
  Variable dry : bool.

  (* a decision is carried out by forwarding iff keep or dry run *)
  Definition fw (keep : bool) : bool := keep || dry.

  Definition set_buf (w : wstate) (b : amap trace) : wstate :=
    {| w_buf := b; w_dec := w_dec w; w_cfg := w_cfg w |}.

  Definition step_span (w : wstate) (now : Z) (s : span) : wstate * list ev :=
    let t := s_tid s in
    match alookup t (w_buf w) with
    | Some tr => (set_buf w (aset t (add_span (w_cfg w) now tr s) (w_buf w)), [])
    | None =>
        match alookup t (w_dec w) with
        | Some k => (w, if fw k then [(t, s_id s, R_late)] else [])
        | None => (set_buf w (aset t (add_span (w_cfg w) now (new_trace (w_cfg w) now) s) (w_buf w)), [])
        end
    end.

  (* makeDecision (sampler, Record) ; send ; sendTraces *)
  Definition decide_one (w : wstate) (reason : N) (t : N) (tr : trace) : wstate * list ev :=
    let keep := sampler (c_ver (w_cfg w)) (rev (t_spans tr)) in
    ({| w_buf := aremove t (w_buf w); w_dec := aset t keep (w_dec w); w_cfg := w_cfg w |},
     if fw keep then map (fun s => (t, s_id s, reason)) (rev (t_spans tr)) else []).

  Fixpoint decide_list (w : wstate) (rf : trace -> N) (l : list (N * trace)) : wstate * list ev :=
    match l with
    | [] => (w, [])
    | (t, tr) :: r =>
        let '(w1, e1) := decide_one w (rf tr) t tr in
        let '(w2, e2) := decide_list w1 rf r in (w2, e1 ++ e2)
    end.

  (* ---------- tick: TakeExpiredTraces(now, max) with the queue's pops as oracle ---------- *)
  Definition is_min_deadline (buf : amap trace) (d : Z) : bool :=
    forallb (fun kv => d <=? t_sendby (snd kv)) buf.
  Definition none_expired (buf : amap trace) (now : Z) : bool :=
    forallb (fun kv => now <? t_sendby (snd kv)) buf.
  Definition is_empty {A} (l : list A) : bool := match l with [] => true | _ => false end.

  (* for !pq.IsEmpty() && (max <= 0 || len(expired) < max) { pop; if now.Before(sendBy) {push; break}; take } *)
  Fixpoint take_loop (buf : amap trace) (now max taken : Z) (choice : list N) : option (list (N * trace)) :=
    if negb (is_empty buf) && ((max <=? 0) || (taken <? max)) then
      match choice with
      | [] => if none_expired buf now then Some [] else None
      | t :: rest =>
          match alookup t buf with
          | None => None
          | Some tr =>
              if is_min_deadline buf (t_sendby tr) && negb (now <? t_sendby tr) then
                option_map (cons (t, tr)) (take_loop (aremove t buf) now max (taken + 1) rest)
              else None
          end
      end
    else match choice with [] => Some [] | _ => None end.

  (* spanLimit := uint32(SpanLimit) in sendExpiredTracesInCache: see span_limit_32 in Proofs *)
  Definition tick_sl (c : cfg) : Z := c_sl c.
  Definition tick_reason (c : cfg) (tr : trace) : N :=
    if has_root tr then R_root
    else if (0 <? tick_sl c) && (tick_sl c <? count tr) then R_limit
    else R_expired.

  Definition step_tick (w : wstate) (now : Z) (choice : list N) : option (wstate * list ev) :=
    match take_loop (w_buf w) now (c_me (w_cfg w)) 0 choice with
    | None => None
    | Some taken => Some (decide_list w (tick_reason (w_cfg w)) taken)
    end.

  (* ---------- eject: sendTracesEarly(bytes) with the sort's order as oracle ---------- *)
  Definition span_impact (tt : Z) (s : span) : Z :=
    (Z.quot (cache_impact_factor * s_age s) tt + 1) * s_size s.
  Definition trace_impact (tt : Z) (tr : trace) : Z :=
    fold_right (fun s acc => span_impact tt s + acc) 0 (t_spans tr).
  Definition data_size (tr : trace) : Z := fold_right (fun s acc => s_size s + acc) 0 (t_spans tr).
  Definition eject_tt (c : cfg) : Z := if c_tt c =? 0 then eject_trace_timeout_fallback else c_tt c.
  Definition is_max_impact (tt : Z) (buf : amap trace) (i : Z) : bool :=
    forallb (fun kv => trace_impact tt (snd kv) <=? i) buf.

  (* for _, trace := range sorted { decide; total += DataSize; send; if total > bytes { break } } *)
  Fixpoint eject_loop (buf : amap trace) (tt bytes total : Z) (choice : list N) : option (list (N * trace)) :=
    match choice with
    | [] => if is_empty buf then Some [] else None
    | t :: rest =>
        match alookup t buf with
        | None => None
        | Some tr =>
            if is_max_impact tt buf (trace_impact tt tr) then
              let total' := total + data_size tr in
              if bytes <? total' then (if is_empty rest then Some [(t, tr)] else None)
              else option_map (cons (t, tr)) (eject_loop (aremove t buf) tt bytes total' rest)
            else None
        end
    end.

  Definition step_eject (w : wstate) (bytes : Z) (choice : list N) : option (wstate * list ev) :=
    match eject_loop (w_buf w) (eject_tt (w_cfg w)) bytes 0 choice with
    | None => None
    | Some taken => Some (decide_list w (fun _ => R_eject) taken)
    end.

  (* ---------- one worker ---------- *)
  Inductive op :=
  | OSpan (now : Z) (s : span)
  | OTick (now : Z) (choice : list N)
  | OEject (bytes : Z) (choice : list N)
  | OReload (c : cfg)
  | OForget (t : N).

  Definition step (w : wstate) (o : op) : option (wstate * list ev) :=
    match o with
    | OSpan now s => Some (step_span w now s)
    | OTick now ch => step_tick w now ch
    | OEject bytes ch => step_eject w bytes ch
    | OReload c => Some ({| w_buf := w_buf w; w_dec := w_dec w; w_cfg := c |}, [])
    | OForget t => Some ({| w_buf := w_buf w; w_dec := aremove t (w_dec w); w_cfg := w_cfg w |}, [])
    end.

  (* an op the code could not have performed is a stutter *)
  Definition step_total (w : wstate) (o : op) : wstate * list ev :=
    match step w o with Some r => r | None => (w, []) end.

  Fixpoint run (w : wstate) (ops : list op) : wstate * list (list ev) :=
    match ops with
    | [] => (w, [])
    | o :: r => let '(w1, e) := step_total w o in let '(w2, es) := run w1 r in (w2, e :: es)
    end.

  (* ---------- the product of workers ---------- *)
  Inductive sop := SOp (wi : nat) (o : op).
  Definition sop_w (so : sop) : nat := match so with SOp i _ => i end.
  Definition sop_op (so : sop) : op := match so with SOp _ o => o end.

  Fixpoint upd {A} (i : nat) (x : A) (l : list A) : list A :=
    match l, i with
    | [], _ => []
    | _ :: r, O => x :: r
    | y :: r, S j => y :: upd j x r
    end.

  Definition sys_step (ws : list wstate) (so : sop) : list wstate * list ev :=
    match nth_error ws (sop_w so) with
    | None => (ws, [])
    | Some w => let '(w1, e) := step_total w (sop_op so) in (upd (sop_w so) w1 ws, e)
    end.

  Fixpoint sys_run (ws : list wstate) (ops : list sop) : list wstate * list (list ev) :=
    match ops with
    | [] => (ws, [])
    | o :: r => let '(ws1, e) := sys_step ws o in let '(ws2, es) := sys_run ws1 r in (ws2, e :: es)
    end.

  (* ---------- checkAlloc: trigger and per-worker share ---------- *)
  Definition alloc_triggers (alloc maxalloc : Z) : bool := negb ((maxalloc =? 0) || (alloc <? maxalloc)).
  Definition alloc_share (alloc maxalloc nworkers : Z) : Z := Z.quot (alloc - maxalloc) nworkers.
End Worker.

(* ======================= abstract machine (DESIGN Appendix A) ======================= *)
(* Only trace ids, span ids, an ideal decision map and ghost histories. *)
Record ast := {
  a_buf : amap (list N);        (* buffered span ids, newest first *)
  a_dec : amap bool;            (* remembered decision *)
  a_out : list (N * N);         (* ghost: every (trace, span) handed to the transmission, newest first *)
  a_acc : list (N * N);         (* ghost: every accepted (trace, span) *)
  a_fgt : list N;               (* ghost: traces whose decision was forgotten at least once *)
  a_hist : list (N * bool)      (* ghost: every decision made *)
}.
Inductive aop := ASpan (t s : N) | ADecide (t : N) (keep : bool) | AForget (t : N).

Definition ainit : ast := {| a_buf := []; a_dec := []; a_out := []; a_acc := []; a_fgt := []; a_hist := [] |}.

Definition astep (dry : bool) (x : ast) (o : aop) : ast :=
  match o with
  | ASpan t s =>
      match alookup t (a_buf x) with
      | Some ss => {| a_buf := aset t (s :: ss) (a_buf x); a_dec := a_dec x; a_out := a_out x;
                      a_acc := (t, s) :: a_acc x; a_fgt := a_fgt x; a_hist := a_hist x |}
      | None =>
          match alookup t (a_dec x) with
          | Some k => {| a_buf := a_buf x; a_dec := a_dec x;
                         a_out := (if k || dry then [(t, s)] else []) ++ a_out x;
                         a_acc := (t, s) :: a_acc x; a_fgt := a_fgt x; a_hist := a_hist x |}
          | None => {| a_buf := aset t [s] (a_buf x); a_dec := a_dec x; a_out := a_out x;
                       a_acc := (t, s) :: a_acc x; a_fgt := a_fgt x; a_hist := a_hist x |}
          end
      end
  | ADecide t keep =>
      match alookup t (a_buf x) with
      | None => x
      | Some ss => {| a_buf := aremove t (a_buf x); a_dec := aset t keep (a_dec x);
                      a_out := (if keep || dry then map (pair t) ss else []) ++ a_out x;
                      a_acc := a_acc x; a_fgt := a_fgt x; a_hist := (t, keep) :: a_hist x |}
      end
  | AForget t => {| a_buf := a_buf x; a_dec := aremove t (a_dec x); a_out := a_out x;
                    a_acc := a_acc x; a_fgt := t :: a_fgt x; a_hist := a_hist x |}
  end.

Definition arun (dry : bool) (x : ast) (ops : list aop) : ast := fold_left (astep dry) ops x.
