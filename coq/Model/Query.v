(* Executable model of the /query/ endpoints: the gorilla/mux routing table that route/route.go LnS and
   AddOTLPMuxxer build (extracted verbatim into Gen/GenC25.v), route/middleware.go queryTokenChecker, and the
   error body of route/errors.go handlerReturnWithError.

   Oracles / not modelled: mux's path cleaning (the harness says whether the path is already clean; unclean
   paths are redirected), the payload the four handlers produce once they run (only "data of handler h").
   No proofs in this file. *)
From Refinery Require Import Lib.Base Gen.GenC25.

(* ---- strings --------------------------------------------------------------------------------------- *)
Fixpoint split_on (c : ascii) (s : string) : list string :=
  match s with
  | EmptyString => [EmptyString]
  | String a r =>
      if Ascii.eqb a c then EmptyString :: split_on c r
      else match split_on c r with
           | [] => [String a EmptyString]
           | h :: t => String a h :: t
           end
  end.

(* "/query/trace/abc" -> ["query"; "trace"; "abc"];  "/query/" -> ["query"; ""];  "/" -> [""] *)
Definition segs (path : string) : list string := tl (split_on "/"%char path).

Definition nonempty (s : string) : bool := negb (String.eqb s "").
Definition is_var (s : string) : bool := match s with String "{"%char _ => true | _ => false end.
Definition seg_match (pat s : string) : bool := if is_var pat then nonempty s else String.eqb pat s.

Fixpoint segs_match (pats ss : list string) : bool :=
  match pats, ss with
  | [], [] => true
  | p :: pr, s :: sr => seg_match p s && segs_match pr sr
  | _, _ => false
  end.

(* PathPrefix("/a/b/"): the prefix's segments are ["a"; "b"; ""]; it matches a path whose first segments are
   a, b and that has at least one more segment *)
Fixpoint prefix_match (pats ss : list string) : bool :=
  match pats with
  | [] => true
  | p :: pr =>
      match pr with
      | [] => if String.eqb p "" then (match ss with [] => false | _ => true end)
              else match ss with s :: _ => seg_match p s | [] => false end
      | _ => match ss with s :: sr => seg_match p s && prefix_match pr sr | [] => false end
      end
  end.

Definition smem (s : string) (l : list string) : bool := existsb (String.eqb s) l.

(* replace the first "%s" of a format by [a] *)
Fixpoint subst1 (fmt a : string) : string :=
  match fmt with
  | String "%"%char (String "s"%char r) => (a ++ r)%string
  | String c r => String c (subst1 r a)
  | EmptyString => EmptyString
  end.
Fixpoint after1 (fmt : string) : string :=   (* the part of fmt after its first "%s" (for the second substitution) *)
  match fmt with
  | String "%"%char (String "s"%char r) => r
  | String _ r => after1 r
  | EmptyString => EmptyString
  end.
Fixpoint before1 (fmt : string) : string :=
  match fmt with
  | String "%"%char (String "s"%char r) => EmptyString
  | String c r => String c (before1 r)
  | EmptyString => EmptyString
  end.
(* fmt.Sprintf(fmt, a, b) for a format with two %s : substitution is not re-scanned *)
Definition sprintf2 (fmt a b : string) : string := (before1 fmt ++ a ++ subst1 (after1 fmt) b)%string.

(* ---- the routing table --------------------------------------------------------------------------------- *)
Record route := {
  rt_prefix : list string;     (* segments of the enclosing sub-router's PathPrefix ([] for the root router) *)
  rt_methods : list string;    (* methods of the enclosing sub-router ([] = any) *)
  rt_is_prefix : bool;         (* PathPrefix(..).HandlerFunc route *)
  rt_pat : list string;        (* segments of the route's own pattern *)
  rt_handler : string;
  rt_mws : list string         (* middlewares in effect: the root's, then the sub-router's *)
}.

Definition trow := (string * (string * (string * string)))%type.
Definition t_kind (r : trow) := fst r.
Definition t_x (r : trow) := fst (snd r).
Definition t_a (r : trow) := fst (snd (snd r)).
Definition t_b (r : trow) := snd (snd (snd r)).

Definition uses_of (tbl : list trow) (x : string) : list string :=
  flat_map (fun r => if String.eqb (t_kind r) "use" && String.eqb (t_x r) x then [t_a r] else []) tbl.

(* "prefix|M1,M2" *)
Definition sub_prefix (b : string) : string := hd ""%string (split_on "|"%char b).
Definition sub_methods (b : string) : list string :=
  match split_on "|"%char b with
  | [_; m] => if String.eqb m "" then [] else split_on ","%char m
  | _ => []
  end.

(* routes registered directly on router variable [x] *)
Definition own_routes (tbl : list trow) (x : string) (prefix : list string) (methods mws : list string) : list route :=
  flat_map (fun r =>
    if String.eqb (t_x r) x then
      if String.eqb (t_kind r) "route" then
        [{| rt_prefix := prefix; rt_methods := methods; rt_is_prefix := false; rt_pat := segs (t_a r);
            rt_handler := t_b r; rt_mws := mws |}]
      else if String.eqb (t_kind r) "prefix" then
        [{| rt_prefix := prefix; rt_methods := methods; rt_is_prefix := true; rt_pat := segs (t_a r);
            rt_handler := t_b r; rt_mws := mws |}]
      else []
    else []) tbl.

(* the root router's entries in registration order; a sub-router stands where it was created and contributes
   its own routes there; a "call" splices the table of the called function *)
Definition flatten (root : string) (main other : list trow) : list route :=
  let all := main ++ other in
  let root_mws := uses_of all root in
  let entry (tbl : list trow) (r : trow) : list route :=
    if String.eqb (t_kind r) "sub" && String.eqb (t_a r) root then
      own_routes all (t_x r) (segs (sub_prefix (t_b r))) (sub_methods (t_b r)) (root_mws ++ uses_of all (t_x r))
    else if String.eqb (t_x r) root && (String.eqb (t_kind r) "route" || String.eqb (t_kind r) "prefix") then
      own_routes [r] root [] [] root_mws
    else [] in
  flat_map (fun r =>
    if String.eqb (t_kind r) "call" && String.eqb (t_x r) root then flat_map (entry other) other
    else entry main r) main.

Definition routes : list route := flatten "muxxer" c25_lns_table c25_otlp_table.

Definition route_matches (method : string) (ss : list string) (r : route) : bool :=
  (match rt_methods r with [] => true | ms => smem method ms end) &&
  (match rt_prefix r with
   | [] => if rt_is_prefix r then prefix_match (rt_pat r) ss else segs_match (rt_pat r) ss
   | pre =>
       prefix_match pre ss &&
       (* the sub-router's routes are matched against the whole path: prefix (without its trailing "") ++ pattern *)
       (let full := removelast pre ++ rt_pat r in
        if rt_is_prefix r then prefix_match full ss else segs_match full ss)
   end).

Definition dispatch (method path : string) : option route := find (route_matches method (segs path)) routes.

(* ---- the token check and the error body ---------------------------------------------------------------- *)
Definition checker_name : string := "queryTokenChecker".

(* queryTokenChecker lets the request through *)
Definition authorized (required hdr : string) : bool := nonempty required && String.eqb hdr required.

Fixpoint slookup {V} (k : string) (l : list (string * V)) : option V :=
  match l with [] => None | (k', v) :: r => if String.eqb k k' then Some v else slookup k r end.

(* handlerReturnWithError(w, he, err): status and body *)
Definition err_reply (name err : string) : N * string :=
  match slookup name c25_handler_errors, slookup name c25_handler_error_msgs with
  | Some (st, (detailed, friendly)), Some msg =>
      let m := if detailed then (msg ++ ": " ++ err)%string else msg in
      let m := if friendly then m else c25_generic_message in
      (st, (c25_err_json_prefix ++ m ++ c25_err_json_suffix)%string)
  | _, _ => (0%N, ""%string)
  end.

Definition denied_reply (required hdr : string) : N * string :=
  if nonempty required
  then err_reply "ErrAuthNeeded" (sprintf2 c25_msg_wrong_token hdr c25_token_header)
  else err_reply "ErrAuthNeeded" c25_msg_unconfigured.

(* handlers that read the sampler configuration, the config metadata or the sharder *)
Definition sensitive : list string := ["debugTrace"; "getSamplerRules"; "getAllSamplerRules"; "getConfigMetadata"]%string.

Inductive qresp :=
| QRedirect                              (* mux answers 301 to the cleaned path *)
| QData (h : string)                     (* handler h ran and answered *)
| QDenied (st : N) (body : string)       (* the token check answered *)
| QOther (h : string)                    (* some other handler of Refinery (proxy, health, ingest) *)
| QNone.                                 (* no route *)

(* [hdr] = first value of the X-Honeycomb-Refinery-Query header, "" when absent *)
Definition serve (required : string) (clean : bool) (method path hdr : string) : qresp :=
  if negb clean then QRedirect
  else match dispatch method path with
       | None => QNone
       | Some rt =>
           if smem checker_name (rt_mws rt)
           then (if authorized required hdr then QData (rt_handler rt)
                 else let '(st, body) := denied_reply required hdr in QDenied st body)
           else if smem (rt_handler rt) sensitive then QData (rt_handler rt)
           else QOther (rt_handler rt)
       end.

(* ---- the specification --------------------------------------------------------------------------------- *)
(* the documented query endpoints *)
Definition spec_endpoint (method path : string) : option string :=
  if negb (String.eqb method "GET") then None
  else match segs path with
       | [q; t; id] =>
           if String.eqb q "query" && String.eqb t "trace" && nonempty id then Some "debugTrace"%string
           else if String.eqb q "query" && String.eqb t "allrules" && nonempty id then Some "getAllSamplerRules"%string
           else None
       | [q; t; f; d] =>
           if String.eqb q "query" && String.eqb t "rules" && nonempty f && nonempty d then Some "getSamplerRules"%string else None
       | [q; t] => if String.eqb q "query" && String.eqb t "configmetadata" then Some "getConfigMetadata"%string else None
       | _ => None
       end.

(* the methods the extracted table lists for the /query/ sub-router *)
Definition query_methods : list string :=
  flat_map (fun r => if String.eqb (t_kind r) "sub" && String.eqb (sub_prefix (t_b r)) "/query/"
                     then sub_methods (t_b r) else []) (c25_lns_table ++ c25_otlp_table).

Definition is_query_route (r : route) : bool :=
  smem (rt_handler r) sensitive || (match rt_prefix r with p :: _ => String.eqb p "query" | [] => false end).

(* what the table has to satisfy: every route that runs a sensitive handler, and every route below /query/,
   is behind the token check and is restricted to the (non-empty) method list extracted for the /query/
   sub-router; the checker's source is exactly the modelled text and never looks at the request method, so its
   verdict is the same for every method; its error is a 4xx *)
Definition route_guarded (r : route) : bool :=
  if is_query_route r
  then smem checker_name (rt_mws r) &&
       list_eqb String.eqb (rt_methods r) query_methods && negb (match query_methods with [] => true | _ => false end)
  else true.
Definition table_ok : bool :=
  forallb route_guarded routes && c25_checker_frame_ok && negb c25_checker_looks_at_method &&
  (400 <=? fst (err_reply "ErrAuthNeeded" ""))%N && (fst (err_reply "ErrAuthNeeded" "") <? 500)%N.
