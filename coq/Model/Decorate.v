(* Vocabulary of the decoration specification (C06) over the forwarding model of Model/Rates.v. No proofs. *)
From Refinery Require Import Lib.Base Model.Rates.

(* the configuration in force after a history: the last reload, or the initial one *)
Fixpoint last_cfg (c0 : cfg) (ops : list op) : cfg :=
  match ops with
  | [] => c0
  | Reload c :: r => last_cfg c r
  | _ :: r => last_cfg c0 r
  end.

Definition counts_of (o : out) : N * N * N * N := (o_spancount o, o_eventcount o, o_sevcount o, o_linkcount o).

(* the four counters of a list of spans / of a decision record: descendants, span events, links, spans *)
Definition cnt4 (l : list span) : N * N * N * N := (n_desc l, n_sev l, n_link l, n_span l).
Definition rec4 (r : rec) : N * N * N * N := (r_desc r, r_sev r, r_link r, r_span r).

(* what the root decoration must be for counters (d, e, l, s) under configuration c *)
Definition expected_root (c : cfg) (q : N * N * N * N) : N * N * N * N :=
  let '(d, e, l, s) := q in root_counts c true d e l s.
