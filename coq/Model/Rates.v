(* Executable "forwarding" model of the collector, shared by C04 (rates), C05 (dry run) and C06
   (decoration).  It follows, statement by statement,
     collect/collector_worker.go  processSpan, sendExpiredTracesInCache / sendTracesEarly -> makeDecision
     collect/collect.go           send, sendTraces, dealWithSentTrace, ProcessSpanImmediately,
                                  mergeTraceAndSpanSampleRates, addAdditionalAttributes
     collect/cache/cuckooSentCache.go  Record / CheckSpan (dropped first, kept with Count)
   and deliberately leaves out what other properties own: deadlines (a [Decide] operation decides every
   buffered trace: the driver ticks far in the future / ejects everything), retention limits of the decision
   cache (C31: the store here never forgets), worker sharding, queues.
   The sampler and the stress-relief keep decision are oracles: [dec tid] is what the trace sampler returns
   for the trace, [sdec tid] what StressRelief.GetSampleRate returns.  No proofs here. *)
From Refinery Require Import Lib.Base.
From Refinery Require Import Gen.GenC04.

Definition two32 : N := 4294967296%N.
Definition two63 : N := 9223372036854775808%N.
Definition two64 : N := 18446744073709551616%N.

(* uint64 product, and its reinterpretation as int64 (Payload stores int64(finalSampleRate)) *)
Definition mul64 (a b : N) : N := ((a * b) mod two64)%N.
Definition to_i64 (p : N) : Z := if (p <? two63)%N then Z.of_N p else (Z.of_N p - Z.of_N two64).

(* the decision record stores the rate in a uint32 or in a uint, whichever the source says *)
Definition store_rate (r : N) : N := if kept_rate_is_uint32 then (r mod two32)%N else r.

Record span := { s_id : N; s_tid : N; s_rate : N; s_root : bool; s_ann : N }.   (* s_rate 0 = absent *)

Record cfg := { c_dry : bool; c_reason : bool; c_spancount : bool; c_counts : bool; c_hostmeta : bool;
                c_attrs : list (N * N) }.

Record trace := { t_spans : list span; t_root : bool }.
Record rec := { r_rate : N; r_reason : string; r_desc : N; r_sev : N; r_link : N; r_span : N }.

Record st := { buf : amap trace; kept : amap rec; dropped : list N; cf : cfg; host_cur : bool }.

Definition init (c : cfg) : st :=
  {| buf := []; kept := []; dropped := []; cf := c; host_cur := c_hostmeta c |}.

(* what the driver observes of one forwarded span *)
Record out := { o_sid : N; o_rate : N; o_final : Z; o_orig : N; o_dry : option bool; o_dryrate : option N;
                o_reason : string; o_host : bool; o_stressed : bool;
                o_spancount : N; o_eventcount : N; o_sevcount : N; o_linkcount : N;
                o_attrs : list (N * N) }.

Inductive op :=
| Span (s : span)          (* processSpan *)
| Stress (s : span)        (* ProcessSpanImmediately *)
| Decide                   (* every buffered trace is decided and sent (tick far in the future / eject all) *)
| Reload (c : cfg).

(* host metadata: the hostname field is (re)evaluated from the option at Start and - when the source
   does so - by reloadConfigs; forwarding adds it iff it is non-empty *)
Definition host_on (s : st) : bool := host_cur s.

(* ---------- mergeTraceAndSpanSampleRates ---------- *)
(* returns (SampleRate, final, original, dryrun sample rate) *)
Definition merge (client rate : N) (dry : bool) : N * Z * N * option N :=
  let temp := if (client <? 1)%N then 1%N else client in
  if dry then (temp, 0, client, Some (mul64 temp rate))
  else (mul64 temp rate, to_i64 (mul64 temp rate), client, None).

(* ---------- counts ---------- *)
Definition count_ann (a : N) (l : list span) : N := N.of_nat (length (filter (fun s => N.eqb (s_ann s) a) l)).
Definition n_desc (l : list span) : N := N.of_nat (length l).
Definition n_sev (l : list span) : N := count_ann 1 l.
Definition n_link (l : list span) : N := count_ann 2 l.
Definition n_span (l : list span) : N := (n_desc l - n_sev l - n_link l)%N.

(* root decoration from (desc, sev, link, span) *)
Definition root_counts (c : cfg) (isroot : bool) (d e l s : N) : N * N * N * N :=
  if isroot then
    if c_counts c then (s, d, e, l)            (* span_count, event_count, span_event_count, span_link_count *)
    else if c_spancount c then (d, 0, 0, 0)%N
    else (0, 0, 0, 0)%N
  else (0, 0, 0, 0)%N.

Definition rec_count (a : N) (r : rec) : rec :=
  {| r_rate := r_rate r; r_reason := r_reason r; r_desc := r_desc r + 1;
     r_sev := if N.eqb a 1 then r_sev r + 1 else r_sev r;
     r_link := if N.eqb a 2 then r_link r + 1 else r_link r;
     r_span := if N.eqb a 1 || N.eqb a 2 then r_span r else r_span r + 1 |}%N.

Definition late_suffix : string := " - late arriving span".
Definition late_only : string := "late arriving span".

Section Oracles.
Variable dec : N -> N * bool * string.      (* trace sampler: rate, keep, reason *)
Variable sdec : N -> N * bool * string.     (* stress relief: rate, keep, reason *)

(* ---------- sendTraces: one span of a decided trace ---------- *)
Definition fwd_ontime (s : st) (rate : N) (keep : bool) (reason : string) (tr : trace) (sp : span) : out :=
  let c := cf s in
  let '(sr, fin, orig, dr) := merge (s_rate sp) rate (c_dry c) in
  let '(sc, ec, sev, lk) := root_counts c (s_root sp) (n_desc (t_spans tr)) (n_sev (t_spans tr))
                                        (n_link (t_spans tr)) (n_span (t_spans tr)) in
  {| o_sid := s_id sp; o_rate := sr; o_final := fin; o_orig := orig;
     o_dry := if c_dry c then Some keep else None; o_dryrate := dr;
     o_reason := if c_reason c then reason else EmptyString;
     o_host := host_on s; o_stressed := false;
     o_spancount := sc; o_eventcount := ec; o_sevcount := sev; o_linkcount := lk;
     o_attrs := c_attrs c |}.

(* ---------- makeDecision + Record + send + sendTraces for one trace ---------- *)
Definition decide_one (s : st) (tid : N) (tr : trace) : st * list out :=
  let '(rate, keep, reason) := dec tid in
  let s1 :=
    if keep then
      {| buf := buf s;
         kept := aset tid {| r_rate := store_rate rate; r_reason := reason; r_desc := n_desc (t_spans tr);
                             r_sev := n_sev (t_spans tr); r_link := n_link (t_spans tr);
                             r_span := n_span (t_spans tr) |} (kept s);
         dropped := dropped s; cf := cf s; host_cur := host_cur s |}
    else {| buf := buf s; kept := kept s; dropped := tid :: dropped s; cf := cf s; host_cur := host_cur s |} in
  if negb keep && negb (c_dry (cf s)) then (s1, [])
  else (s1, map (fwd_ontime s rate keep reason tr) (t_spans tr)).

Fixpoint decide_all (s : st) (l : list (N * trace)) : st * list out :=
  match l with
  | [] => (s, [])
  | (tid, tr) :: r => let '(s1, o1) := decide_one s tid tr in
                      let '(s2, o2) := decide_all s1 r in (s2, o1 ++ o2)
  end.

(* ---------- CheckSpan: dropped first, then kept (counting the span) ---------- *)
Inductive found := FNone | FDropped | FKept (r : rec).
Definition check_span (s : st) (sp : span) : st * found :=
  if mem_N (s_tid sp) (dropped s) then (s, FDropped)
  else match alookup (s_tid sp) (kept s) with
       | Some r => let r' := rec_count (s_ann sp) r in
                   ({| buf := buf s; kept := aset (s_tid sp) r' (kept s); dropped := dropped s;
                       cf := cf s; host_cur := host_cur s |}, FKept r')
       | None => (s, FNone)
       end.

(* ---------- dealWithSentTrace ---------- *)
Definition late_reason (c : cfg) (kept_reason : string) : string :=
  if c_reason c then
    (if String.eqb kept_reason EmptyString then late_only else kept_reason ++ late_suffix)%string
  else EmptyString.

Definition fwd_late (s : st) (sp : span) (f : found) : list out :=
  let c := cf s in
  match f with
  | FNone => []
  | FDropped =>
      if c_dry c then
        [{| o_sid := s_id sp; o_rate := s_rate sp; o_final := 0; o_orig := 0; o_dry := Some false;
            o_dryrate := None; o_reason := late_reason c EmptyString; o_host := host_on s; o_stressed := false;
            o_spancount := 0; o_eventcount := 0; o_sevcount := 0; o_linkcount := 0; o_attrs := c_attrs c |}]
      else []
  | FKept r =>
      let '(sr, fin, orig, dr) := merge (s_rate sp) (r_rate r) (c_dry c) in
      let '(sc, ec, sev, lk) := root_counts c (s_root sp) (r_desc r) (r_sev r) (r_link r) (r_span r) in
      [{| o_sid := s_id sp; o_rate := sr; o_final := fin; o_orig := orig;
          o_dry := if c_dry c then Some true else None; o_dryrate := dr;
          o_reason := late_reason c (r_reason r); o_host := host_on s; o_stressed := false;
          o_spancount := sc; o_eventcount := ec; o_sevcount := sev; o_linkcount := lk; o_attrs := c_attrs c |}]
  end.

(* ---------- ProcessSpanImmediately ---------- *)
Definition fwd_stress (s : st) (sp : span) (rate : N) (reason : string) : out :=
  let c := cf s in
  let '(sr, fin, orig, dr) := merge (s_rate sp) rate (c_dry c) in
  {| o_sid := s_id sp; o_rate := sr; o_final := fin; o_orig := orig; o_dry := None; o_dryrate := dr;
     o_reason := if c_reason c then reason else EmptyString; o_host := host_on s; o_stressed := true;
     o_spancount := 0; o_eventcount := 0; o_sevcount := 0; o_linkcount := 0; o_attrs := c_attrs c |}.

Definition step (s : st) (o : op) : st * list out :=
  match o with
  | Span sp =>
      match alookup (s_tid sp) (buf s) with
      | Some tr =>
          ({| buf := aset (s_tid sp) {| t_spans := t_spans tr ++ [sp]; t_root := t_root tr || s_root sp |} (buf s);
              kept := kept s; dropped := dropped s; cf := cf s; host_cur := host_cur s |}, [])
      | None =>
          let '(s1, f) := check_span s sp in
          match f with
          | FNone =>
              ({| buf := aset (s_tid sp) {| t_spans := [sp]; t_root := s_root sp |} (buf s);
                  kept := kept s; dropped := dropped s; cf := cf s; host_cur := host_cur s |}, [])
          | _ => (s1, fwd_late s1 sp f)
          end
      end
  | Stress sp =>
      let '(s1, f) := check_span s sp in
      match f with
      | FDropped => (s1, [])
      | FKept r => (s1, [fwd_stress s1 sp (r_rate r) (r_reason r)])
      | FNone =>
          let '(rate, keep, reason) := sdec (s_tid sp) in
          if keep then
            ({| buf := buf s;
                kept := aset (s_tid sp) {| r_rate := store_rate rate; r_reason := reason;
                                           r_desc := 0; r_sev := 0; r_link := 0; r_span := 0 |} (kept s);
                dropped := dropped s; cf := cf s; host_cur := host_cur s |},
             [fwd_stress s sp rate reason])
          else
            ({| buf := buf s; kept := kept s; dropped := s_tid sp :: dropped s; cf := cf s;
                host_cur := host_cur s |}, [])
      end
  | Decide =>
      let '(s1, o1) := decide_all s (buf s) in
      ({| buf := []; kept := kept s1; dropped := dropped s1; cf := cf s1; host_cur := host_cur s1 |}, o1)
  | Reload c =>
      ({| buf := buf s; kept := kept s; dropped := dropped s; cf := c;
          host_cur := if host_reloaded then c_hostmeta c else host_cur s |}, [])
  end.

Fixpoint run (s : st) (ops : list op) : st * list (list out) :=
  match ops with
  | [] => (s, [])
  | o :: r => let '(s1, o1) := step s o in let '(s2, o2) := run s1 r in (s2, o1 :: o2)
  end.
End Oracles.
