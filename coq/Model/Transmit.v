(* Executable model of transmit/direct_transmit.go (DirectTransmission).

   Go                                         model
   --                                         -----
   transmitKey{apiHost,apiKey,dataset}        edest : N   (the harness numbers the triples injectively)
   eventBatches map[transmitKey]*eventBatch   pend : amap pbatch   (events in append order + startTime)
   EnqueueEvent                               enq     (append; first event sets startTime; len >= max => dispatch)
   dispatchStaleBatches, batchTicker          tick    (every tickq = BatchTimeout/4; dispatch when T - start >= BT)
   clock.Advance(d)                           Adv d   (fires every tick instant in (now, now+d], in order)
   Stop                                       Stop    (dispatch every non-empty batch)
   sendBatch: size loop                       take_sub / split   (5 bytes header slack, 1 MB / 5 MB limits)
   sendBatch: retry loop                      tries   (server behaviour = oracle stream per sub-batch)
   sendBatch: accounting                      account (Down exactly where the Go code calls Metrics.Down)

   Every mutation of a batch happens under batch.mutex, so EnqueueEvent and one ticker pass over one
   key are atomic steps; sends work on a private slice.  Schedules are therefore op sequences.
   Time is Z nanoseconds of the fake clock.  Serialized sizes and server behaviours are inputs.   *)
From Refinery Require Import Lib.Base Gen.GenC26.

Record tcfg := {
  maxEv : Z;        (* apiMaxEventSize *)
  maxBody : Z;      (* apiMaxBatchSize *)
  slack : Z;        (* bytes reserved in front of the packed events for the array header *)
  ntries : nat;     (* bound of the retry loop *)
  retryLim : Z;     (* a Retry-After sleep must be below this to retry (ns) *)
  tdiv : Z;         (* the stale-batch ticker runs every BatchTimeout / tdiv *)
  maxBatch : Z;     (* MaxBatchSize *)
  bt : Z            (* BatchTimeout (ns) *)
}.
Definition tickq (c : tcfg) : Z := bt c / tdiv c.
(* what the theorems need of the constants; checked on the generated values by computation *)
Definition consts_ok (c : tcfg) : bool :=
  (5 <=? slack c) && (slack c + maxEv c <=? maxBody c) && (0 <=? maxEv c) &&
  (Nat.leb (ntries c) 2) && (4 <=? tdiv c).
Definition cfg_ok (c : tcfg) : bool := consts_ok c && (1 <=? maxBatch c) && (tdiv c <=? bt c).

Record event := { eid : N; edest : N; esize : Z }.

(* ---------------- batching ---------------- *)
Record pbatch := { pevs : list (event * Z); pstart : Z }.     (* (event, enqueue instant) *)
Record tstate := { now : Z; next : Z; pend : amap pbatch }.   (* next = next ticker instant *)
Definition tinit (c : tcfg) (t0 : Z) : tstate := {| now := t0; next := t0 + tickq c; pend := [] |}.

Inductive why := Full | Stale | Stopped.
Record disp := { dwhy : why; dtime : Z; dstart : Z; devs : list (event * Z) }.

Inductive top := Enq (e : event) | Adv (d : Z) | Sync | Stop.

Definition empty_batch : pbatch := {| pevs := []; pstart := 0 |}.
Definition batch_of (k : N) (p : amap pbatch) : pbatch :=
  match alookup k p with Some b => b | None => empty_batch end.

Definition enq (c : tcfg) (s : tstate) (e : event) : tstate * list disp :=
  let b := batch_of (edest e) (pend s) in
  let st := match pevs b with [] => now s | _ => pstart b end in
  let evs := pevs b ++ [(e, now s)] in
  if maxBatch c <=? Z.of_nat (length evs)
  then ({| now := now s; next := next s; pend := aset (edest e) {| pevs := []; pstart := st |} (pend s) |},
        [{| dwhy := Full; dtime := now s; dstart := st; devs := evs |}])
  else ({| now := now s; next := next s; pend := aset (edest e) {| pevs := evs; pstart := st |} (pend s) |}, []).

Definition stale (c : tcfg) (T : Z) (kb : N * pbatch) : bool :=
  match pevs (snd kb) with [] => false | _ => bt c <=? T - pstart (snd kb) end.
Definition clear_stale (c : tcfg) (T : Z) (kb : N * pbatch) : N * pbatch :=
  if stale c T kb then (fst kb, {| pevs := []; pstart := pstart (snd kb) |}) else kb.
Definition disp_of (w : why) (T : Z) (kb : N * pbatch) : disp :=
  {| dwhy := w; dtime := T; dstart := pstart (snd kb); devs := pevs (snd kb) |}.
Definition tick (c : tcfg) (T : Z) (p : amap pbatch) : amap pbatch * list disp :=
  (map (clear_stale c T) p, map (disp_of Stale T) (filter (stale c T) p)).

Fixpoint ticks (c : tcfg) (n : nat) (T : Z) (p : amap pbatch) : amap pbatch * list disp :=
  match n with
  | O => (p, [])
  | S n' => let '(p1, o1) := tick c T p in
            let '(p2, o2) := ticks c n' (T + tickq c) p1 in (p2, o1 ++ o2)
  end.
Definition nticks (c : tcfg) (s : tstate) (d : Z) : nat :=
  if next s <=? now s + d then Z.to_nat ((now s + d - next s) / tickq c + 1) else O.
Definition adv (c : tcfg) (s : tstate) (d : Z) : tstate * list disp :=
  let n := nticks c s d in
  let '(p, o) := ticks c n (next s) (pend s) in
  ({| now := now s + d; next := next s + Z.of_nat n * tickq c; pend := p |}, o).

Definition nonempty (kb : N * pbatch) : bool := match pevs (snd kb) with [] => false | _ => true end.
Definition stop (s : tstate) : tstate * list disp :=
  ({| now := now s; next := next s; pend := [] |}, map (disp_of Stopped (now s)) (filter nonempty (pend s))).

Definition pending_events (p : amap pbatch) : list (event * Z) := concat (map (fun kb => pevs (snd kb)) p).

(* one op; Sync reports the number of pending events (the harness reads the up/down gauge there) *)
Definition tstep (c : tcfg) (s : tstate) (o : top) : tstate * list disp * list Z :=
  match o with
  | Enq e => let '(s', d) := enq c s e in (s', d, [])
  | Adv d => let '(s', o) := adv c s d in (s', o, [])
  | Sync => (s, [], [Z.of_nat (length (pending_events (pend s)))])
  | Stop => let '(s', d) := stop s in (s', d, [])
  end.
Fixpoint trun (c : tcfg) (s : tstate) (ops : list top) : tstate * list disp * list Z :=
  match ops with
  | [] => (s, [], [])
  | o :: r => let '(s1, d1, y1) := tstep c s o in
              let '(s2, d2, y2) := trun c s1 r in (s2, d1 ++ d2, y1 ++ y2)
  end.

(* ---------------- sendBatch: size-bounded splitting ---------------- *)
(* one pass of the inner for loop, starting with acc bytes already in `packed`:
   (events put in this request, events dropped as oversize, events left for the next pass) *)
Fixpoint take_sub (c : tcfg) (acc : Z) (evs : list event) : list event * list event * list event :=
  match evs with
  | [] => ([], [], [])
  | e :: r =>
      if maxEv c <? esize e then let '(s, o, rest) := take_sub c acc r in (s, e :: o, rest)
      else if maxBody c <? acc + esize e then ([], [], e :: r)
      else let '(s, o, rest) := take_sub c (acc + esize e) r in (e :: s, o, rest)
  end.
(* the outer `for len(wholeBatch) > 0`; fuel = S (length evs) suffices when cfg_ok (proved) *)
Fixpoint split (c : tcfg) (fuel : nat) (evs : list event) : option (list (list event) * list event) :=
  match evs with
  | [] => Some ([], [])
  | _ => match fuel with
         | O => None                       (* the Go loop would not terminate *)
         | S f => let '(s, o, rest) := take_sub c (slack c) evs in
                  match split c f rest with
                  | None => None
                  | Some (subs, os) => Some (match s with [] => subs | _ => s :: subs end, o ++ os)
                  end
         end
  end.
Definition split_all (c : tcfg) (evs : list event) := split c (S (length evs)) evs.

(* msgp.AppendArrayHeader *)
Definition hdr_len (n : Z) : Z := if n <? 16 then 1 else if n <? 65536 then 3 else 5.
Definition body_size (sub : list event) : Z :=
  hdr_len (Z.of_nat (length sub)) + fold_right (fun e a => esize e + a) 0 sub.

(* ---------------- sendBatch: retry loop and accounting ---------------- *)
Inductive resp :=
| RTimeout                                   (* httpClient.Do error with Timeout() *)
| RNetErr                                    (* any other transport error *)
| RHttp (code : Z) (sleep : Z) (statuses : list Z).
   (* sleep: the sleepDur the code derives from Retry-After (default 1 s); only read for 429/503 *)

Definition retryable_status (code : Z) : bool := (code =? 429) || (code =? 503).
(* (attempts made, sleeps, last response) *)
Fixpoint tries (c : tcfg) (n : nat) (rs : list resp) : N * list Z * resp :=
  match n with
  | O => (0%N, [], RNetErr)
  | S n' =>
      let r := match rs with x :: _ => x | [] => RNetErr end in
      let again := match n' with
                   | O => (1%N, [], r)
                   | _ => let '(a, sl, l) := tries c n' (tl rs) in (N.succ a, sl, l)
                   end in
      match r with
      | RTimeout => again
      | RNetErr => (1%N, [], r)
      | RHttp code sl _ =>
          if retryable_status code && (0 <? sl) && (sl <? retryLim c)
          then let '(a, sls, l) := again in (a, sl :: sls, l)
          else (1%N, [], r)
      end
  end.

Record counters := { downs : Z; ok20x : Z; resp_err : Z; send_err : Z; retries : Z; batches : Z; msgs : Z }.
Definition czero := {| downs := 0; ok20x := 0; resp_err := 0; send_err := 0; retries := 0; batches := 0; msgs := 0 |}.
Definition cadd (a b : counters) := {|
  downs := downs a + downs b; ok20x := ok20x a + ok20x b; resp_err := resp_err a + resp_err b;
  send_err := send_err a + send_err b; retries := retries a + retries b; batches := batches a + batches b;
  msgs := msgs a + msgs b |}.

(* per-event outcome of a 200 response: i-th status must exist and be 202 *)
Fixpoint count_ok (n : nat) (sts : list Z) : Z :=
  match n with
  | O => 0
  | S n' => match sts with
            | [] => 0
            | st :: r => (if st =? 202 then 1 else 0) + count_ok n' r
            end
  end.
Definition account (nev : nat) (attempts : N) (last : resp) : counters :=
  let n := Z.of_nat nev in
  let rt := Z.of_N attempts - 1 in
  match last with
  | RTimeout | RNetErr =>      (* handleBatchFailure *)
      {| downs := n; ok20x := 0; resp_err := 0; send_err := 1; retries := rt; batches := 0; msgs := 0 |}
  | RHttp code _ sts =>
      if code =? 200 then
        let k := count_ok nev sts in
        {| downs := n; ok20x := k; resp_err := n - k; send_err := 0; retries := rt; batches := 1; msgs := n |}
      else
        {| downs := n; ok20x := 0; resp_err := n; send_err := 1; retries := rt; batches := 1; msgs := n |}
  end.

(* a request as the fake server sees it *)
Record request := { rq_dest : N; rq_evs : list event; rq_size : Z; rq_attempts : N; rq_time : Z }.

Definition first_id (sub : list event) : N := match sub with e :: _ => eid e | [] => 0%N end.
Definition first_dest (sub : list event) : N := match sub with e :: _ => edest e | [] => 0%N end.

Section Send.
  Variable c : tcfg.
  Variable beh : N -> list resp.       (* server behaviour per sub-batch, keyed by its first event id *)
  Variable bad : N -> bool.            (* destinations whose API host does not form a URL (buildRequestURL fails) *)

  (* a sub-batch for a bad destination never leaves (buildRequestURL fails, handleBatchFailure):
     it is reported with 0 attempts *)
  Definition send_sub (T : Z) (sub : list event) : request * list Z * counters :=
    if bad (first_dest sub) then
      ({| rq_dest := first_dest sub; rq_evs := sub; rq_size := body_size sub; rq_attempts := 0; rq_time := T |},
       [], account (length sub) 1 RNetErr)
    else
    let '(a, sl, l) := tries c (ntries c) (beh (first_id sub)) in
    ({| rq_dest := first_dest sub; rq_evs := sub; rq_size := body_size sub; rq_attempts := a; rq_time := T |},
     sl, account (length sub) a l).

  Fixpoint send_subs (T : Z) (subs : list (list event)) : list request * list Z * counters :=
    match subs with
    | [] => ([], [], czero)
    | s :: r => let '(q1, s1, c1) := send_sub T s in
                let '(q2, s2, c2) := send_subs T r in (q1 :: q2, s1 ++ s2, cadd c1 c2)
    end.

  Definition oversize_counters (n : nat) : counters :=
    {| downs := Z.of_nat n; ok20x := 0; resp_err := Z.of_nat n; send_err := 0; retries := 0; batches := 0; msgs := 0 |}.

  (* sendBatch on one dispatched batch: requests, sleeps, counters, oversize events *)
  Definition send_disp (d : disp) : option (list request * list Z * counters * list event) :=
    match split_all c (map fst (devs d)) with
    | None => None
    | Some (subs, os) =>
        let '(q, s, k) := send_subs (dtime d) subs in
        Some (q, s, cadd k (oversize_counters (length os)), os)
    end.

  Fixpoint send_all (ds : list disp) : option (list request * list Z * counters * list event) :=
    match ds with
    | [] => Some ([], [], czero, [])
    | d :: r => match send_disp d, send_all r with
                | Some (q1, s1, k1, o1), Some (q2, s2, k2, o2) => Some (q1 ++ q2, s1 ++ s2, cadd k1 k2, o1 ++ o2)
                | _, _ => None
                end
    end.
End Send.

(* whole run: ops on the transmission, every dispatched batch sent to completion *)
Record result := { r_reqs : list request; r_sleeps : list Z; r_cnt : counters; r_over : list event;
                   r_syncs : list Z; r_ups : Z; r_pending : list (event * Z) }.
Definition enqueued (ops : list top) : list event :=
  flat_map (fun o => match o with Enq e => [e] | _ => [] end) ops.
Definition run (c : tcfg) (beh : N -> list resp) (bad : N -> bool) (t0 : Z) (ops : list top) : option result :=
  let '(s, ds, ys) := trun c (tinit c t0) ops in
  match send_all c beh bad ds with
  | None => None
  | Some (q, sl, k, os) =>
      Some {| r_reqs := q; r_sleeps := sl; r_cnt := k; r_over := os; r_syncs := ys;
              r_ups := Z.of_nat (length (enqueued ops)); r_pending := pending_events (pend s) |}
  end.

(* every enqueued event with its enqueue instant, read off the op list alone *)
Fixpoint stamps (nw : Z) (ops : list top) : list (event * Z) :=
  match ops with
  | [] => []
  | Enq e :: r => (e, nw) :: stamps nw r
  | Adv d :: r => stamps (nw + d) r
  | _ :: r => stamps nw r
  end.

(* histories the property quantifies over: time does not go backwards *)
Definition op_ok (o : top) : bool := match o with Adv d => 0 <=? d | _ => true end.
Definition ops_ok (ops : list top) : bool := forallb op_ok ops.

(* the configuration whose constants are read from transmit/direct_transmit.go on every run *)
Definition gen_cfg (mb b : Z) : tcfg := {|
  maxEv := api_max_event_size; maxBody := api_max_batch_size; slack := header_slack;
  ntries := N.to_nat send_tries; retryLim := retry_after_limit_ns; tdiv := ticker_divisor;
  maxBatch := mb; bt := b |}.
(* the source constructs the model copies literally (comparison operators, retry statuses, slack bytes) *)
Definition gen_shape_ok : bool :=
  stale_cond_is_age_ge_timeout && full_cond_is_len_ge_max && oversize_cond_is_gt_max_event &&
  split_cond_is_gt_max_batch && retry_statuses_are_429_503 &&
  match header_slack_zeros with
  | [z] => Z.of_nat (String.length z) =? 3 * header_slack
  | _ => false
  end.
