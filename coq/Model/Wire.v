(* C09 — wire encodings and what the samplers read after decoding.

   A field value on the wire:
     WInt z   an integer in a signed encoding (msgpack fixint / int8..int64; a JSON integer literal)
     WUint z  the same integer in an unsigned msgpack encoding (uint8..uint64)
     WF32 d   a float in 32 bits (d is the exact dyadic value, representable in binary32)
     WF64 d   a float in 64 bits (msgpack float64; a JSON number with fraction / exponent)
   Ingestion paths, by the decoder that produces the Go value:
     PMsgp   tinylib msgp.ReadIntfBytes   (msgpack batch, peer-forwarded spans, OTLP msgpack,
                                           and the second half of the JSON batch path)
     PLoose  vmihailenco, loose interface decoding   (msgpack single event)
     PJson   JSON numbers become float64  (JSON event: jsoniter into map[string]any;
                                           JSON batch: fastjson -> AppendFloat64 -> PMsgp)
     PMap    a Go map with int64 / float64 values     (OTLP via husky)
   [dec] is decoding FOLLOWED by types.Payload.Get's normalizeNumeric (repo commit "fix:
   Payload.Get returns unsigned and 32-bit msgpack numbers as int64 / float64"): that is the value
   sample/rules.go and sample/trace_key.go see.  No proofs here. *)
From Refinery Require Import Lib.Base Model.Values Model.Rules.
Local Open Scope string_scope.
Local Open Scope Z_scope.

Inductive wire :=
| WInt (z : Z) | WUint (z : Z) | WF32 (d : dy) | WF64 (d : dy)
| WStr (s : string) | WBool (b : bool) | WNil | WOther (txt : string).

Inductive path := PMsgp | PLoose | PJson | PMap.

(* normalizeNumeric on what a msgpack decoder returns for an unsigned integer *)
Definition norm_uint (z : Z) : sval := if z <=? int_max then SInt z else SF64 (round53 z).

Definition dec (p : path) (w : wire) : sval :=
  match w with
  | WStr s => SStr s
  | WBool b => SBool b
  | WNil => SNil
  | WOther t => SOther t
  | WF32 d | WF64 d => SF64 d
  | WInt z =>
      match p with
      | PJson => SF64 (round53 z)
      | _ => SInt z
      end
  | WUint z =>
      match p with
      | PJson => SF64 (round53 z)
      | _ => norm_uint z
      end
  end.

(* a span on the wire: the path it came in by and its fields *)
Record wspan := { w_path : path; w_fields : list (string * wire) }.
Definition dec_span (s : wspan) : span := map (fun kv => (fst kv, dec (w_path s) (snd kv))) (w_fields s).

Record wtrace := { wt_spans : list wspan; wt_root : option wspan }.
Definition dec_trace (t : wtrace) : trace :=
  {| t_spans := map dec_span (wt_spans t); t_root := option_map dec_span (wt_root t) |}.

(* ---------- numeric equality of wire values ("numerically equal values") ---------- *)
Definition wnum (w : wire) : option dy :=
  match w with
  | WInt z | WUint z => Some (dy_norm z 0)
  | WF32 d | WF64 d => Some d
  | _ => None
  end.
Definition wire_eqv (a b : wire) : bool :=
  match wnum a, wnum b with
  | Some x, Some y => dy_eqb x y
  | None, None =>
      match a, b with
      | WStr x, WStr y => String.eqb x y
      | WBool x, WBool y => Bool.eqb x y
      | WNil, WNil => true
      | WOther x, WOther y => String.eqb x y
      | _, _ => false
      end
  | _, _ => false
  end.
