(* Executable model of Router.processEvent (route/route.go) on top of the payload model.
   No proofs here.

   An event arrives on one listener (incoming or peer) as a payload [fs] plus its envelope
   (API key, dataset, sample rate, timestamp).  Ingestion (Model/Payload.v [ingest]) yields the
   trace id, the probe flag and the root flag exactly as the Go code extracts them.  [process] then
   follows processEvent statement by statement, including its [isProbe] flag, and returns the
   calls made on the three sinks:

     r.UpstreamTransmission.EnqueueEvent      SUpstream
     r.PeerTransmission.EnqueueEvent          SPeer       (APIHost rewritten to the owner's address)
     r.Collector.AddSpan / AddSpanFromPeer    SCollector / SCollectorPeer
     r.Collector.ProcessSpanImmediately       SStress     (only when it reports processed = true)

   The state of the node is a record of oracles: which listener, whether the collector reports
   stress, what ProcessSpanImmediately answers, whether the collector queue is full, and the
   sharder ([owner tid] = None when this node owns the trace, Some address otherwise). *)
From Refinery Require Import Lib.Base Lib.SMap_route2 Gen.GenC20 Model.Payload.

Record envelope := {
  v_apihost : string;
  v_apikey : string;
  v_dataset : string;
  v_rate : Z;
  v_sec : Z;
  v_nsec : N
}.

Inductive sink := SUpstream | SPeer | SCollector | SCollectorPeer | SStress.

Record emission := {
  m_sink : sink;
  m_env : envelope;
  m_data : fields;       (* the payload as it would be marshalled at that moment *)
  m_trace : string;      (* span.TraceID (collector sinks) *)
  m_root : bool          (* span.IsRoot  (collector sinks) *)
}.

Record node := {
  n_incoming : bool;
  n_stressed : bool;                 (* Collector.Stressed() *)
  n_processed : bool;                (* ProcessSpanImmediately: processed *)
  n_kept : bool;                     (* ProcessSpanImmediately: kept *)
  n_full : bool;                     (* AddSpan / AddSpanFromPeer returns ErrWouldBlock *)
  n_owner : string -> option string  (* Sharder.WhichShard: None = MyShard *)
}.

Inductive outcome :=
| Rejected                 (* not a well-formed event: extraction failed or empty data *)
| Refused                  (* collector queue full: error returned to the client, nothing enqueued *)
| Done (l : list emission).

Definition with_host (e : envelope) (h : string) : envelope :=
  {| v_apihost := h; v_apikey := v_apikey e; v_dataset := v_dataset e;
     v_rate := v_rate e; v_sec := v_sec e; v_nsec := v_nsec e |}.

Definition root_of (p : payload) : bool :=
  match slookup meta_refinery_root (p_meta p) with Some (VBool b) => b | _ => false end.

Definition set_probe (p : payload) : payload :=
  with_meta p (sset meta_refinery_probe (VBool true) (p_meta p)).

Definition emit (s : sink) (e : envelope) (p : payload) : emission :=
  {| m_sink := s; m_env := e; m_data := marshal p;
     m_trace := meta_str meta_trace_id p; m_root := root_of p |}.

(* processEvent after ExtractMetadata succeeded *)
Definition route (nd : node) (e : envelope) (p : payload) : outcome :=
  if is_probe p then Done []                                          (* "dropping probe" *)
  else
    let tid := meta_str meta_trace_id p in
    if is_empty_str tid then Done [emit SUpstream e p]                (* not part of a trace *)
    else
      (* stress relief: immediate decision; a kept span becomes a probe for its owner *)
      let '(pre, p1, is_probe_now, stop) :=
        if n_stressed nd && n_processed nd then
          if n_kept nd then ([emit SStress e p], set_probe p, true, false)
          else ([emit SStress e p], p, false, true)
        else ([], p, false, false) in
      if stop then Done pre
      else
        match n_owner nd tid with
        | Some addr => Done (pre ++ [emit SPeer (with_host e addr) p1])
        | None =>
            if is_probe_now then Done pre                             (* the probe was meant for us *)
            else if n_full nd then Refused
            else Done (pre ++ [emit (if n_incoming nd then SCollector else SCollectorPeer) e p1])
        end.

Section Process.
  Variable widen : N -> N.
  Definition process (nd : node) (pa : path) (c : xcfg) (ua : string) (e : envelope) (fs : fields) : outcome :=
    match ingest widen pa c ua fs with
    | None => Rejected
    | Some p => route nd e p
    end.
End Process.

(* ---------- the specification: a decision table ---------- *)
(* the facts the table is indexed by *)
Record facts := {
  f_probe : bool;          (* meta.refinery.probe = true *)
  f_traced : bool;         (* a trace id was found *)
  f_stress : bool;         (* stressed and the stress path processed the span *)
  f_kept : bool;
  f_remote : option string;(* owner address when another node owns the trace *)
  f_full : bool
}.

Inductive verdict :=
| VDiscard                       (* probe: no sink is called *)
| VUpstream                      (* exactly one call: upstream, event unchanged *)
| VCollect                       (* exactly one call: this node's collector *)
| VPeer (addr : string)          (* exactly one call: the owner, only APIHost changed *)
| VStressDrop                    (* stress path decided: dropped *)
| VStressKeep (probe_to : option string)   (* stress path decided: kept; a probe goes to the remote owner *)
| VRefuse.                       (* collector full *)

Definition table (f : facts) : verdict :=
  if f_probe f then VDiscard
  else if negb (f_traced f) then VUpstream
  else if f_stress f then (if f_kept f then VStressKeep (f_remote f) else VStressDrop)
  else match f_remote f with
       | Some a => VPeer a
       | None => if f_full f then VRefuse else VCollect
       end.

Definition facts_of (nd : node) (p : payload) : facts :=
  let tid := meta_str meta_trace_id p in
  {| f_probe := is_probe p;
     f_traced := negb (is_empty_str tid);
     f_stress := n_stressed nd && n_processed nd;
     f_kept := n_kept nd;
     f_remote := n_owner nd tid;
     f_full := n_full nd |}.

(* what each verdict means in terms of sink calls *)
Definition realises (nd : node) (e : envelope) (p : payload) (v : verdict) (o : outcome) : Prop :=
  match v with
  | VDiscard => o = Done []
  | VUpstream => o = Done [emit SUpstream e p]
  | VCollect => o = Done [emit (if n_incoming nd then SCollector else SCollectorPeer) e p]
  | VPeer a => o = Done [emit SPeer (with_host e a) p]
  | VStressDrop => o = Done [emit SStress e p]
  | VStressKeep None => o = Done [emit SStress e p]
  | VStressKeep (Some a) => o = Done [emit SStress e p; emit SPeer (with_host e a) (set_probe p)]
  | VRefuse => o = Refused
  end.

(* number of calls that hand the event itself (not a probe marker) to a sink *)
Definition is_probe_data (d : fields) : bool :=
  match slookup meta_refinery_probe d with Some (VBool true) => true | _ => false end.
Definition handlings (l : list emission) : nat :=
  length (filter (fun m => negb (is_probe_data (m_data m))) l).
