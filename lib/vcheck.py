#!/usr/bin/env python3
"""Driver for the Coq-based verification of honeycombio/refinery.

  ./check Cxx [--tier quick|thorough] [--seed N] [--n N] [--replay FILE]
  ./check --setup | --manifest | --list

One run of a property check:
  1. tools/translate regenerates coq/Gen/*.v from the working tree of $VERIF_REPO (default /repo)
  2. the property's Coq closure (Props/Cxx.vo + Monitor/Cxx.vo) is rebuilt with make (full .vo);
     Props/Cxx.v is always recompiled so that `Print Assumptions` output is fresh
  3. the Go harness is rebuilt against the repo with -tags verif and runs the REAL code on corpus +
     generated inputs, printing inputs and projected observables as Gallina terms
  4. coqc evaluates Monitor.Cxx.check on every case with vm_compute
  5. verdict, replay (shrunk), evidence/Cxx.json
"""
import argparse, fcntl, glob, hashlib, json, os, re, shutil, subprocess, sys, time
from concurrent.futures import ThreadPoolExecutor

ROOT = os.path.dirname(os.path.dirname(os.path.abspath(__file__)))
COQ = os.path.join(ROOT, "coq")
WORK = os.path.join(ROOT, ".work")
BIN = os.path.join(WORK, "bin")
REPO = os.environ.get("VERIF_REPO", "/repo")
GOENV = dict(os.environ, GOFLAGS="-mod=mod", GOPROXY="off")
GOENV.pop("GOTOOLCHAIN", None) if os.environ.get("GOTOOLCHAIN") == "local" else None
SHARD = 400

FORBIDDEN = re.compile(
    r"\b(Admitted|admit|Axiom|Axioms|Parameter|Parameters|Conjecture|Conjectures|Admit\s+Obligations|"
    r"Unset\s+Guard\s+Checking|Unset\s+Positivity\s+Checking|Unset\s+Universe\s+Checking|bypass_check|"
    r"native_compute)\b")


def log(*a):
    print(*a, file=sys.stderr, flush=True)


def sh(cmd, cwd=None, env=None, timeout=None, check=False):
    t = time.time()
    p = subprocess.run(cmd, cwd=cwd, env=env, timeout=timeout, stdout=subprocess.PIPE,
                       stderr=subprocess.STDOUT, text=True, errors="replace")
    if check and p.returncode != 0:
        raise RuntimeError("command failed: %s\n%s" % (cmd, p.stdout[-4000:]))
    return p.returncode, p.stdout, time.time() - t


class Lock:
    def __init__(self, name):
        os.makedirs(WORK, exist_ok=True)
        self.path = os.path.join(WORK, name + ".lock")

    def __enter__(self):
        self.f = open(self.path, "w")
        fcntl.flock(self.f, fcntl.LOCK_EX)

    def __exit__(self, *a):
        fcntl.flock(self.f, fcntl.LOCK_UN)
        self.f.close()


def load_prop(pid):
    with open(os.path.join(ROOT, "props", pid + ".json")) as f:
        return json.load(f)


def all_props():
    return sorted(os.path.basename(p)[:-5] for p in glob.glob(os.path.join(ROOT, "props", "C*.json")))


# ---------------------------------------------------------------- translator
def file_hash(paths):
    h = hashlib.sha256()
    for p in sorted(paths):
        h.update(p.encode())
        with open(p, "rb") as f:
            h.update(f.read())
    return h.hexdigest()[:16]


def build_translator():
    src = glob.glob(os.path.join(ROOT, "tools/translate/*.go")) + [os.path.join(ROOT, "tools/translate/go.mod")]
    tag = file_hash(src)
    out = os.path.join(BIN, "translate-" + tag)
    if not os.path.exists(out):
        os.makedirs(BIN, exist_ok=True)
        for old in glob.glob(os.path.join(BIN, "translate-*")):
            os.remove(old)
        env = dict(GOENV, GOFLAGS="-mod=mod", GOWORK="off")
        rc, o, _ = sh(["go", "build", "-o", out, "."], cwd=os.path.join(ROOT, "tools/translate"), env=env, timeout=600)
        if rc != 0:
            raise RuntimeError("translator build failed:\n" + o)
    return out


def run_translator():
    """Regenerate coq/Gen/*.v from the repo working tree. Returns (ok, text, fingerprints)."""
    exe = build_translator()
    os.makedirs(os.path.join(COQ, "Gen"), exist_ok=True)
    rc, o, dt = sh([exe, "--repo", REPO, "--out", os.path.join(COQ, "Gen"),
                    "--specs", os.path.join(ROOT, "tools/translate/specs"),
                    "--fingerprints", os.path.join(WORK, "fingerprints.json")], timeout=300)
    return rc == 0, o, dt


# ---------------------------------------------------------------- coq build
def coq_sources():
    out = []
    for d in ("Lib", "Gen", "Model", "Proofs", "Monitor", "Props", "Extra"):
        out += sorted(glob.glob(os.path.join(COQ, d, "*.v")))
    return [os.path.relpath(p, COQ) for p in out]


def strip_comments(s):
    out, depth, i = [], 0, 0
    while i < len(s):
        if s.startswith("(*", i):
            depth += 1
            i += 2
        elif s.startswith("*)", i) and depth > 0:
            depth -= 1
            i += 2
        else:
            if depth == 0:
                out.append(s[i])
            i += 1
    return "".join(out)


def grep_gate():
    """No Admitted/admit/Axiom/Parameter/... anywhere in the development (comments excluded)."""
    bad = []
    for rel in coq_sources():
        txt = strip_comments(open(os.path.join(COQ, rel)).read())
        txt = re.sub(r'"[^"]*"', '""', txt)
        for m in FORBIDDEN.finditer(txt):
            bad.append("%s: %s" % (rel, m.group(0)))
    return bad


def ensure_makefile():
    srcs = coq_sources()
    proj = "-R . Refinery\n-arg -w -arg -notation-overridden,-deprecated-hint-without-locality,-deprecated-instance-without-locality\n" + "\n".join(srcs) + "\n"
    pf = os.path.join(COQ, "_CoqProject")
    old = open(pf).read() if os.path.exists(pf) else None
    if old != proj or not os.path.exists(os.path.join(COQ, "Makefile")):
        open(pf, "w").write(proj)
        sh(["coq_makefile", "-f", "_CoqProject", "-o", "Makefile"], cwd=COQ, check=True)


def coq_build(targets, force=(), timeout=1500):
    """make the given .vo targets. `force` files are removed first so they are recompiled."""
    ensure_makefile()
    for f in force:
        for ext in ("", "s", "k"):
            p = os.path.join(COQ, f + ext)
            if os.path.exists(p):
                os.remove(p)
    rc, o, dt = sh(["timeout", str(timeout), "make", "-j16", "-k"] + list(targets), cwd=COQ, timeout=timeout + 30)
    return rc == 0, o, dt


def theorem_names(vfile):
    txt = strip_comments(open(vfile).read())
    return re.findall(r"^\s*(?:Theorem|Corollary)\s+([A-Za-z0-9_']+)", txt, re.M)


def parse_assumptions(text):
    """Split coqc output of a Props file into one block per Print Assumptions."""
    blocks, cur = [], None
    for line in text.splitlines():
        if line.startswith("Closed under the global context"):
            blocks.append([])
            cur = None
        elif line.startswith("Axioms:"):
            cur = []
            blocks.append(cur)
        elif cur is not None and (line.startswith(" ") or re.match(r"^[A-Za-z_][\w.']* :", line)):
            m = re.match(r"^([A-Za-z_][\w.']*)\s*:", line)
            if m:
                cur.append(m.group(1))
        elif line.strip() == "":
            continue
        else:
            cur = None
    return blocks


def props_compile(pid):
    """Force-recompile Props/pid.v directly with coqc to capture Print Assumptions."""
    rc, o, dt = sh(["timeout", "900", "coqc", "-R", ".", "Refinery", "-w",
                    "-notation-overridden,-deprecated-hint-without-locality", "Props/%s.v" % pid], cwd=COQ, timeout=930)
    return rc == 0, o, dt


# ---------------------------------------------------------------- harness
def harness_dir():
    src = os.path.join(ROOT, "harness")
    if REPO == "/repo":
        return src
    dst = os.path.join(WORK, "harness-" + hashlib.sha1(REPO.encode()).hexdigest()[:8])
    sh(["rsync", "-a", "--delete", "--exclude", "go.sum", src + "/", dst + "/"], check=True)
    gm = open(os.path.join(dst, "go.mod")).read().replace("=> /repo", "=> " + REPO)
    open(os.path.join(dst, "go.mod"), "w").write(gm)
    return dst


def _drive_defs():
    """symbol -> drive file defining it (top-level funcs, types, vars, consts), by regex."""
    defs = {}
    ddir = os.path.join(ROOT, "harness", "drive")
    for f in sorted(glob.glob(os.path.join(ddir, "*.go"))):
        if f.endswith("_test.go"):
            continue
        txt = open(f).read()
        for m in re.finditer(r"^func\s+(?:\([^)]*\)\s*)?([A-Za-z_]\w*)", txt, re.M):
            defs.setdefault(m.group(1), os.path.basename(f))
        for m in re.finditer(r"^type\s+([A-Za-z_]\w*)", txt, re.M):
            defs.setdefault(m.group(1), os.path.basename(f))
        for m in re.finditer(r"^(?:var|const)\s+([A-Za-z_]\w*)", txt, re.M):
            defs.setdefault(m.group(1), os.path.basename(f))
        for blk in re.finditer(r"^(?:var|const|type)\s*\((.*?)^\)", txt, re.M | re.S):
            for m in re.finditer(r"^\s+([A-Za-z_]\w*)", blk.group(1), re.M):
                defs.setdefault(m.group(1), os.path.basename(f))
    return defs


def build_harness(pid=None):
    """Build the harness binary for ONE property from only the driver files it needs (closure over
    undefined symbols) and only the hook tags it needs (verif, verif_cNN), so that a source change that
    stops another property's driver or hook from compiling cannot disturb this check."""
    src = os.path.join(ROOT, "harness")
    os.makedirs(BIN, exist_ok=True)
    rtag = "" if REPO == "/repo" else "-" + hashlib.sha1(REPO.encode()).hexdigest()[:8]
    if pid is None:   # monolithic build (setup): everything, all tags; in a copy so that -mod=mod never edits the tracked go.mod
        d = os.path.join(WORK, "hb", "all" + rtag)
        os.makedirs(d, exist_ok=True)
        sh(["rsync", "-a", "--delete", "--exclude", "go.sum", src + "/", d + "/"], check=True)
        gm = open(os.path.join(d, "go.mod")).read().replace("=> /repo", "=> " + REPO)
        open(os.path.join(d, "go.mod"), "w").write(gm)
        shutil.copy(os.path.join(REPO, "go.sum"), os.path.join(d, "go.sum"))
        exe = os.path.join(BIN, "vh-all" + rtag)
        rc, o, dt = sh(["go", "build", "-tags", "verif,verif_all", "-o", exe, "."], cwd=d, env=GOENV, timeout=1800)
        return rc == 0, o, dt, exe
    t0 = time.time()
    d = os.path.join(WORK, "hb", pid + rtag)
    os.makedirs(os.path.join(d, "drive"), exist_ok=True)
    sh(["rsync", "-a", "--delete", "--exclude", "drive/", "--exclude", "go.sum", src + "/", d + "/"], check=True)
    gm = open(os.path.join(d, "go.mod")).read().replace("=> /repo", "=> " + REPO)
    open(os.path.join(d, "go.mod"), "w").write(gm)
    shutil.copy(os.path.join(REPO, "go.sum"), os.path.join(d, "go.sum"))
    ddir = os.path.join(src, "drive")
    allfiles = sorted(os.path.basename(f) for f in glob.glob(os.path.join(ddir, "*.go")) if not f.endswith("_test.go"))
    prop = load_prop(pid)
    low = pid.lower()
    files = set(["registry.go"] + [f for f in allfiles if f.startswith(low)] + prop.get("driver_files", []))
    tags = set(["verif", "verif_" + low] + prop.get("hook_tags", []))
    res_file = os.path.join(d, "resolved.json")
    key = file_hash([os.path.join(ddir, f) for f in allfiles])
    if os.path.exists(res_file):
        r = json.load(open(res_file))
        if r.get("key") == key:
            files |= set(r["files"])
            tags |= set(r["tags"])
    defs = None
    exe = os.path.join(BIN, "vh-" + pid + rtag)
    out = ""
    for _ in range(12):
        for f in os.listdir(os.path.join(d, "drive")):
            if f not in files:
                os.remove(os.path.join(d, "drive", f))
        for f in files:
            if os.path.exists(os.path.join(ddir, f)):
                shutil.copy(os.path.join(ddir, f), os.path.join(d, "drive", f))
        rc, out, _ = sh(["go", "build", "-tags", ",".join(sorted(tags)), "-o", exe, "."], cwd=d, env=GOENV, timeout=1800)
        if rc == 0:
            write_json(res_file, {"key": key, "files": sorted(files), "tags": sorted(tags)})
            return True, out, time.time() - t0, exe
        grew = False
        for m in re.finditer(r"undefined: (?:([A-Za-z_]\w*)\.)?([A-Za-z_]\w*)", out):
            pkg, sym = m.group(1), m.group(2)
            hm = re.match(r"Verif(C\d+)", sym)
            if pkg and hm:
                t = "verif_" + hm.group(1).lower()
                if t not in tags:
                    tags.add(t)
                    grew = True
                continue
            if pkg:
                continue
            defs = defs or _drive_defs()
            f = defs.get(sym)
            if f and f not in files:
                files.add(f)
                grew = True
        for m in re.finditer(r"has no field or method (Verif(C\d+)\w*)", out):
            t = "verif_" + m.group(2).lower()
            if t not in tags:
                tags.add(t)
                grew = True
        if not grew:
            break
    return False, out, time.time() - t0, exe


def run_vh(exe, pid, args, outfile, timeout=1800):
    env = dict(os.environ)
    cmd = ["timeout", str(timeout), exe, pid, "--out", outfile] + args
    rc, o, dt = sh(cmd, env=env, timeout=timeout + 30, cwd=os.path.join(WORK, pid))
    cases = []
    if os.path.exists(outfile):
        with open(outfile) as f:
            for line in f:
                line = line.strip()
                if line:
                    try:
                        cases.append(json.loads(line))
                    except ValueError:
                        break      # the driver was stopped in the middle of a line: keep what is complete
    return rc, o, dt, cases


# ---------------------------------------------------------------- case evaluation in Coq
RESULT_RE = re.compile(r"\((\d+)%N,\s*\[([^\]]*)\]\)")


def eval_shard(pid, prop, idx, cases, wdir):
    name = "cases_%s_%d" % (pid, idx)
    vf = os.path.join(wdir, name + ".v")
    imports = prop.get("case_imports", [])
    with open(vf, "w") as f:
        f.write("From Refinery Require Import Lib.Base.\n")
        for imp in imports:
            f.write("From Refinery Require Import %s.\n" % imp)
        f.write("From Refinery Require Import Monitor.%s.\n" % pid)
        f.write("Local Open Scope string_scope.\nLocal Open Scope list_scope.\n")
        f.write("Definition cases : list case := [\n")
        f.write(";\n".join(c["coq"] for c in cases))
        f.write("\n].\n")
        f.write("Definition result := Eval vm_compute in check_all check cases.\n")
        f.write("Set Printing Width 1000000.\nSet Printing Depth 1000000.\nPrint result.\n")
    rc, o, dt = sh(["timeout", "1200", "coqc", "-R", COQ, "Refinery", "-w", "-notation-overridden", vf],
                   cwd=wdir, timeout=1230)
    if rc != 0 or "result =" not in o:
        return None, o
    body = o.split("result =", 1)[1]
    body = re.sub(r"\s+", " ", body)
    res = {}
    for m in RESULT_RE.finditer(body):
        codes = [int(x.replace("%N", "").strip()) for x in m.group(2).split(";") if x.strip()]
        res[int(m.group(1))] = codes
    return res, o


def eval_cases(pid, prop, cases, wdir):
    """Returns (dict index -> codes, error text or None)."""
    if not cases:
        return {}, None
    shards = [(i // SHARD, cases[i:i + SHARD], i) for i in range(0, len(cases), SHARD)]
    out, err = {}, None
    with ThreadPoolExecutor(max_workers=14) as ex:
        futs = [(base, ex.submit(eval_shard, pid, prop, idx, cs, wdir)) for idx, cs, base in shards]
        for base, fu in futs:
            res, o = fu.result()
            if res is None:
                err = o[-3000:]
                continue
            for k, v in res.items():
                out[base + k] = v
    return out, err


# ---------------------------------------------------------------- known findings
def load_known(pid):
    """known_findings/Cxx.json holds the entries of one property (committed, never written by a check).
    known_findings.json is the consolidated copy written by `./check --manifest`."""
    p = os.path.join(ROOT, "known_findings", pid + ".json")
    if not os.path.exists(p):
        return []
    return [e for e in json.load(open(p)) if e.get("property") == pid]


def coqchk(pid, timeout=2700):
    """Independent re-check of the property's compiled closure (thorough tier only)."""
    rc, o, dt = sh(["timeout", str(timeout), "coqchk", "-silent", "-o", "-R", ".", "Refinery",
                    "Refinery.Props.%s" % pid], cwd=COQ, timeout=timeout + 30)
    axioms = []
    m = re.search(r"Axioms:(.*?)(?:\n\s*\n|\Z)", o, re.S)
    if "* Axioms: <none>" in o:
        axioms = []
    elif m:
        axioms = [l.strip() for l in m.group(1).splitlines() if l.strip()]
    return rc == 0, axioms, dt, o[-1500:]


# ---------------------------------------------------------------- main check
def write_json(path, obj):
    os.makedirs(os.path.dirname(path), exist_ok=True)
    tmp = path + ".tmp"
    with open(tmp, "w") as f:
        json.dump(obj, f, indent=1, sort_keys=False)
        f.write("\n")
    os.replace(tmp, path)


def shrink(pid, prop, exe, case, code, wdir, budget_s=120):
    """Greedy delta-debugging through the driver's Shrink candidates, keeping `code`."""
    t0 = time.time()
    cur = case
    rounds = 0
    while time.time() - t0 < budget_s and rounds < 60:
        rounds += 1
        inp = os.path.join(wdir, "shrink_in.json")
        write_json(inp, {"input": cur["input"]})
        rc, o, dt, cands = run_vh(exe, pid, ["--shrink", inp], os.path.join(wdir, "shrink_out.jsonl"), timeout=300)
        if rc != 0 or not cands:
            break
        cands = cands[:SHARD]
        res, err = eval_cases(pid, prop, cands, wdir)
        nxt = None
        for i, c in enumerate(cands):
            if code in res.get(i, []):
                nxt = c
                break
        if nxt is None or nxt.get("input") == cur.get("input"):
            break
        cur = nxt
    return cur


def check_property(pid, tier, seed, n_override=None, replay=None):
    t_start = time.time()
    prop = load_prop(pid)
    wdir = os.path.join(WORK, pid)
    shutil.rmtree(wdir, ignore_errors=True)
    os.makedirs(wdir, exist_ok=True)
    evidence_path = os.path.join(ROOT, "evidence", pid + ".json")
    notes, broken = [], []     # broken: list of (kind, detail) for proof / tie breakage
    timings = {}

    # 1-2. translator + Coq
    with Lock("build"):
        ok, o, dt = run_translator()
        timings["translate_s"] = round(dt, 1)
        if not ok:
            mine = [l for l in o.splitlines() if re.search(r"translate: %s[^:]*\.json" % pid, l)]
            if mine or "translate:" not in o:
                broken.append(("translator", "\n".join(mine) or o[-2000:]))
        gate = grep_gate()
        if gate:
            broken.append(("forbidden-construct", "; ".join(gate)))
        targets = prop.get("coq_targets", ["Props/%s.vo" % pid, "Monitor/%s.vo" % pid])
        ok, o, dt = coq_build(targets)
        timings["coq_make_s"] = round(dt, 1)
        make_out = o
        pok, pout, pdt = props_compile(pid)
        timings["props_coqc_s"] = round(pdt, 1)
    thms = theorem_names(os.path.join(COQ, "Props", pid + ".v"))
    obligations = len(thms)
    blocks = parse_assumptions(pout)
    axioms = sorted(set(a for b in blocks for a in b))
    if pok:
        discharged = obligations
        if len(blocks) < obligations:
            notes.append("only %d Print Assumptions blocks for %d theorems" % (len(blocks), obligations))
    else:
        # theorems before the first error line count as discharged
        m = re.search(r'File "\./Props/%s\.v", line (\d+)' % pid, pout)
        discharged = 0
        failing = None
        if m:
            errline = int(m.group(1))
            src = open(os.path.join(COQ, "Props", pid + ".v")).read().splitlines()
            for t in thms:
                ln = next((i + 1 for i, l in enumerate(src) if re.match(r"\s*(Theorem|Corollary)\s+%s\b" % re.escape(t), l)), 0)
                if ln and ln < errline:
                    nxt_ok = True
                    discharged += 1
                else:
                    failing = failing or t
            # the theorem containing the error was counted if its header precedes the error: fix up
            hdrs = [(next((i + 1 for i, l in enumerate(src) if re.match(r"\s*(Theorem|Corollary)\s+%s\b" % re.escape(t), l)), 0), t) for t in thms]
            inside = [t for ln, t in hdrs if ln and ln <= errline]
            if inside:
                failing = inside[-1]
                discharged = max(0, len(inside) - 1)
        detail = "Props/%s.v does not compile (theorem %s): %s" % (pid, failing, (pout.strip().splitlines() or ["?"])[-1][:300])
        if not ok:
            errs = re.findall(r'File "\./([^"]+)", line (\d+)[^\n]*\n(?:[^\n]*\n){0,6}?Error:([^\n]*(?:\n[^\n]+){0,3})', make_out)
            if errs:
                detail += " | first failing file %s line %s: %s" % (errs[0][0], errs[0][1], errs[0][2].strip()[:300])
        broken.append(("proof", detail))
    chk = None
    if tier == "thorough" and pok and not replay and prop.get("coqchk", True):
        with Lock("build"):
            cok, cax, cdt, cout = coqchk(pid)
        timings["coqchk_s"] = round(cdt, 1)
        chk = {"ok": cok, "axioms": cax, "wall_s": round(cdt, 1)}
        if not cok:
            broken.append(("coqchk", cout))
    mon_ok = os.path.exists(os.path.join(COQ, "Monitor", pid + ".vo"))
    if not mon_ok:
        broken.append(("monitor", "Monitor/%s.v does not compile: %s" % (pid, make_out[-1500:])))

    # 3. harness
    with Lock("gobuild"):
        hok, hout, hdt, exe = build_harness(pid)
    timings["go_build_s"] = round(hdt, 1)
    cases, codes, eval_err = [], {}, None
    n = n_override or prop.get("%s_n" % tier, prop.get("quick_n", 200))
    if not hok:
        broken.append(("harness-build", hout[-2500:]))
    elif mon_ok:
        args = ["--seed", str(seed), "--tier", tier]
        if replay:
            args += ["--replay", os.path.abspath(replay)]
        else:
            args += ["--n", str(n), "--corpus", os.path.join(ROOT, "corpus", pid)]
        rc, o, dt, cases = run_vh(exe, pid, args, os.path.join(wdir, "cases.jsonl"),
                                  timeout=prop.get("%s_timeout" % tier, 1500))
        timings["drive_s"] = round(dt, 1)
        if rc != 0:
            broken.append(("driver", "vh %s exited %d: %s" % (pid, rc, o[-2500:])))
        t = time.time()
        codes, eval_err = eval_cases(pid, prop, cases, wdir)
        timings["coq_eval_s"] = round(time.time() - t, 1)
        if eval_err:
            broken.append(("case-evaluation", eval_err))

    # 4. verdict
    known = load_known(pid)
    known_codes = {}
    for e in known:
        if e.get("status") == "known":
            for c in e.get("codes", []):
                known_codes[int(c)] = e
    code_names = {int(k): v for k, v in prop.get("codes", {}).items()}
    viol = {}        # code -> first case index
    mismatches = []
    known_hits = {}
    for i, cs in sorted(codes.items()):
        for c in cs:
            if c == 1:
                mismatches.append(i)
            elif c in known_codes:
                known_hits.setdefault(c, i)
            else:
                viol.setdefault(c, i)

    # search when only the proof / the tie is broken
    searched = 0
    if (broken or mismatches) and not viol and hok and mon_ok and not replay and not eval_err:
        budget = min(prop.get("search_s", 150), 420)
        t0 = time.time()
        k = 0
        while time.time() - t0 < budget and not viol:
            k += 1
            rc, o, dt, more = run_vh(exe, pid, ["--seed", str(seed + 7919 * k), "--tier", "thorough", "--n", str(max(n, 300) * 3)],
                                     os.path.join(wdir, "search.jsonl"), timeout=int(budget))
            if rc != 0 or not more:
                break
            res, err = eval_cases(pid, prop, more, wdir)
            searched += len(more)
            for i, cs in sorted(res.items()):
                for c in cs:
                    if c != 1 and c not in known_codes:
                        viol.setdefault(c, len(cases) + i)
                    elif c == 1 and not mismatches:
                        mismatches.append(len(cases) + i)
            cases += more
            codes.update({len(cases) - len(more) + i: cs for i, cs in res.items()})

    lines, exit_code, replays = [], 0, []
    rdir = os.path.join(ROOT, "replays", pid)
    if viol:
        for c, i in sorted(viol.items()):
            case = cases[i]
            if prop.get("shrink", True) and not replay:
                case = shrink(pid, prop, exe, case, c, wdir)
            h = hashlib.sha1(json.dumps(case["input"], sort_keys=True).encode()).hexdigest()[:12]
            rp = os.path.join(rdir, "%s-code%d-%s.json" % (pid, c, h))
            write_json(rp, {"property": pid, "kind": "failing-input", "code": c,
                            "what": code_names.get(c, "property monitor false on the implementation's observation"),
                            "seed": seed, "input": case["input"], "summary": case.get("summary"),
                            "coq_case": case["coq"], "broken": [b[0] + ": " + b[1][:400] for b in broken],
                            "replay_cmd": "./check %s --replay %s" % (pid, os.path.relpath(rp, ROOT))})
            replays.append(rp)
            lines.append("VIOLATION property=%s replay=%s" % (pid, rp))
        exit_code = 1
    elif broken or mismatches:
        what = [b[0] + ": " + b[1] for b in broken]
        first = None
        if mismatches:
            first = cases[mismatches[0]]
            what.append("correspondence: model of %s disagrees with the implementation on %d case(s)" % (pid, len(mismatches)))
        h = hashlib.sha1(json.dumps(what).encode()).hexdigest()[:12]
        rp = os.path.join(rdir, "%s-unproved-%s.json" % (pid, h))
        write_json(rp, {"property": pid, "kind": "no-failing-input-found",
                        "no_longer_checks": what,
                        "theorems": thms, "searched_cases": len(cases),
                        "first_mismatching_case": (first or {}).get("summary"),
                        "input": (first or {}).get("input"),
                        "coq_case": (first or {}).get("coq")})
        replays.append(rp)
        lines.append("VIOLATION property=%s replay=%s no-failing-input-found" % (pid, rp))
        exit_code = 1
    for c, i in sorted(known_hits.items()):
        e = known_codes[c]
        lines.append("KNOWN-FINDING: property=%s %s [%s]" % (pid, e.get("what", ""), e.get("id", "")))

    # 5. evidence
    distinct = {}
    tagcount = {}
    for c in cases:
        for t in c.get("tags", []):
            tagcount[t] = tagcount.get(t, 0) + 1
        if c.get("nontrivial"):
            distinct[hashlib.sha1(c.get("key", c["coq"]).encode()).hexdigest()] = 1
    samples = []
    for c in cases[:3] + ([cases[len(cases) // 2]] if len(cases) > 6 else []):
        samples.append({"summary": c.get("summary"), "tags": c.get("tags")})
    samples.append({"obligations": thms})
    trusted = [
        "Coq 8.16.1 kernel via coqc (full .vo build, no -vos); vm_compute used for case evaluation, finite table checks and Example witnesses; no native_compute",
        "axioms reported by Print Assumptions for the theorems of Props/%s.v: %s" % (pid, ", ".join(axioms) if axioms else "none (closed under the global context)"),
        "tools/translate (Go AST -> coq/Gen/*.v) and the case printer of harness/coqfmt",
        "correspondence check harness/drive/%s.go: runs the real code and projects the observables" % pid.lower(),
    ] + prop.get("trusted_base_extra", [])
    ev = {
        "property_id": pid, "tier": tier, "seed": seed, "level": prop.get("level", "proof"),
        "coverage": {
            "obligations": obligations, "discharged": discharged,
            "checker_cmd": "cd coq && make -j16 %s && coqc -R . Refinery Props/%s.v  (then vh %s + coqc cases_%s_*.v)" % (" ".join(prop.get("coq_targets", ["Props/%s.vo" % pid])), pid, pid, pid),
            "trusted_base": trusted,
            "theorems": thms,
            "axioms": axioms,
            "evaluations": len(cases),
            "distinct_nontrivial": len(distinct),
            "rule": prop.get("nontrivial_rule", ""),
            "traces_validated_against_impl": len(cases) - len(mismatches),
            "model_impl_mismatches": len(mismatches),
            "input_distribution": dict(sorted(tagcount.items())),
            "search_cases": searched,
            "samples": samples,
            "timings": timings,
            "known_findings_reproduced": [known_codes[c].get("id") for c in sorted(known_hits)],
            "partial": prop.get("partial", False),
            "coqchk": chk,
        },
        "assumptions": prop.get("assumptions", []) + notes,
        "wall_s": round(time.time() - t_start, 1),
        "violations": len(viol) + (1 if (exit_code and not viol) else 0),
    }
    if not replay:
        write_json(evidence_path, ev)
    for l in lines:
        print(l)
    if exit_code == 0:
        print("OK property=%s tier=%s obligations=%d/%d cases=%d nontrivial=%d wall=%.0fs" %
              (pid, tier, discharged, obligations, len(cases), len(distinct), time.time() - t_start))
    else:
        for b in broken:
            log("BROKEN %s: %s" % (b[0], b[1][:1500]))
    shutil.rmtree(wdir, ignore_errors=True)
    return exit_code


# ---------------------------------------------------------------- setup / manifest
def setup():
    """Warm build of everything (translator, all Coq files, Go build cache). Individual checks rebuild
    exactly what they need, so problems here are reported but only a missing toolchain is fatal."""
    os.makedirs(BIN, exist_ok=True)
    rc_all = 0
    with Lock("build"):
        ok, o, _ = run_translator()
        if not ok:
            log("setup: translator reported problems:\n" + o[-3000:])
        gate = grep_gate()
        if gate:
            log("setup: forbidden constructs:", gate)
            rc_all = 1
        ensure_makefile()
        rc, o, dt = sh(["timeout", "3300", "make", "-j16", "-k"], cwd=COQ, timeout=3330)
        log("setup: coq make rc=%d %.0fs" % (rc, dt))
        if rc != 0:
            log(o[-4000:])
            if not os.path.exists(os.path.join(COQ, "Lib", "Base.vo")):
                rc_all = 1
    with Lock("gobuild"):
        hok, hout, hdt, exe = build_harness()
        log("setup: harness (all drivers) build ok=%s %.0fs" % (hok, hdt))
        if not hok:
            log(hout[-4000:])
    return rc_all


def hook_commits():
    rc, o, _ = sh(["git", "-C", REPO, "log", "--reverse", "--format=%h %s", "--grep", "^verif hook:"])
    return [l.split()[0] for l in o.splitlines() if l.strip()] if rc == 0 else []


def manifest():
    base_cmd = json.load(open("/root/.vp/BASELINE.json"))["cmd"] if os.path.exists("/root/.vp/BASELINE.json") else ""
    old = {}
    mp = os.path.join(ROOT, "MANIFEST.json")
    if os.path.exists(mp):
        old = json.load(open(mp))
    checks, na = [], []
    na_file = os.path.join(ROOT, "props", "not_applicable.json")
    na_decl = json.load(open(na_file)) if os.path.exists(na_file) else {}
    ids = [json.loads(l)["id"] for l in open(os.path.join(ROOT, "properties.jsonl"))]
    have = set(all_props())
    for pid in ids:
        if pid in have:
            p = load_prop(pid)
            checks.append({
                "property_id": pid,
                "quick_cmd": "./check %s --tier quick" % pid,
                "thorough_cmd": "./check %s --tier thorough" % pid,
                "evidence_file": "/verif/evidence/%s.json" % pid,
                "replay_cmd_template": "./check %s --replay {path}" % pid,
                "engine": "coq-proof+correspondence",
                "level_claimed": {"category": p.get("level", "proof"), "text": p["level_text"],
                                  "design_ref": p.get("design_ref", "DESIGN.md §7 " + pid)},
                "level_note": p["level_note"],
                "technique": p.get("technique", "machine-checked proof in Coq 8.16 over an executable model + differential correspondence with the Go code"),
            })
        else:
            na.append({"property_id": pid, "reason": na_decl.get(pid, "no check built yet for this property in this round; the design (DESIGN.md §7) claims it, the machinery is not finished")})
    man = {
        "version": 1,
        "setup_cmd": "./check --setup",
        "hooks": {"guard": "verif", "enable": "go build -tags verif (harness module at /verif/harness, replace => /repo)",
                  "baseline_off_cmd": base_cmd,
                  "source_commits": hook_commits(), "add_only": True},
        "engines": [{"name": "coq-proof+correspondence", "path": "/verif/check",
                     "serves_properties": [c["property_id"] for c in checks],
                     "kind_free_text": "Coq 8.16 theorems over executable Gallina models (coq/), tied to /repo by a Go-AST translator (tools/translate -> coq/Gen) and by a differential correspondence harness (harness/) whose observations are evaluated by the models and monitors inside Coq (vm_compute)"}],
        "checks": checks,
        "notes": "See DESIGN.md. All checks rebuild from /repo's working tree on every run.",
        "not_applicable": na,
    }
    write_json(mp, man)
    allk = []
    for f in sorted(glob.glob(os.path.join(ROOT, "known_findings", "C*.json"))):
        allk += json.load(open(f))
    write_json(os.path.join(ROOT, "known_findings.json"), allk)
    return 0


def main():
    ap = argparse.ArgumentParser()
    ap.add_argument("pid", nargs="?")
    ap.add_argument("--tier", default=os.environ.get("VERIF_TIER", "quick"))
    ap.add_argument("--seed", type=int, default=int(os.environ.get("VERIF_SEED", "1")))
    ap.add_argument("--n", type=int)
    ap.add_argument("--replay")
    ap.add_argument("--setup", action="store_true")
    ap.add_argument("--manifest", action="store_true")
    ap.add_argument("--list", action="store_true")
    a = ap.parse_args()
    os.chdir(ROOT)
    if a.setup:
        sys.exit(setup())
    if a.manifest:
        sys.exit(manifest())
    if a.list:
        print("\n".join(all_props()))
        return
    if not a.pid:
        ap.error("property id required")
    if a.tier not in ("quick", "thorough"):
        a.tier = "quick"
    sys.exit(check_property(a.pid, a.tier, a.seed, a.n, a.replay))


if __name__ == "__main__":
    main()
